#!/usr/bin/env python3
"""mkregress.py <Cxx> <name> <signature> <case-json | @file>  ->  /verif/regress/<Cxx>/<name>.json"""
import json, sys, os
prop, name, sig, case = sys.argv[1:5]
if case.startswith('@'):
    j = json.load(open(case[1:]))
    case = j.get('case', j)
else:
    case = json.loads(case)
d = f'/verif/regress/{prop}'
os.makedirs(d, exist_ok=True)
json.dump({"property": prop, "profile": "any", "select_index": 0, "sig": sig, "msg": "regression probe", "case": case},
          open(f'{d}/{name}.json', 'w'), indent=1)
print(f'{d}/{name}.json')
