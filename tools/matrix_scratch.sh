#!/bin/bash
# matrix_scratch.sh <seeded-name> [...]
# Runs tools/matrix.sh in a scratch copy (/tmp/mx/{verif,repo}: committed /verif HEAD + a worktree of /repo HEAD),
# so that /repo and /verif/harness stay untouched; catch.txt files are written back to /verif/seeded/<name>/.
# The scratch tree and its build output are removed at the end.
set -u
MX=/tmp/mx
rm -rf $MX; mkdir -p $MX
git -C /repo worktree prune
git -C /repo worktree add -q --detach $MX/repo HEAD || exit 2
cp /repo/Cargo.lock $MX/repo/
git -C /verif archive --format=tar --prefix=verif/ HEAD | tar -x -C $MX
# seeded patches not yet committed
rsync -a /verif/seeded/ $MX/verif/seeded/
MATRIX_OUT=/verif/seeded VERIF=$MX/verif REPO=$MX/repo $MX/verif/tools/matrix.sh "$@"
git -C /repo worktree remove --force $MX/repo
rm -rf $MX
