#!/bin/bash
# sens.sh <patch.diff | revert:<commit>> <Cxx> [<Cxx>...]
# Applies a change to /repo's working tree, runs the quick checks, and undoes it again.
# Prints one line per check: <Cxx> exit=<code> [signatures]. Never leaves /repo modified.
set -u
P="$1"; shift
VERIF="${VERIF:-$(cd "$(dirname "$0")/.." && pwd)}"
REPO="${REPO:-$(cd "$VERIF/../repo" && pwd)}"
cd "$REPO" || exit 2
if [ -n "$(git status --porcelain --untracked-files=no)" ]; then echo "/repo is not clean" >&2; exit 2; fi
TMP="$VERIF/work/sens-$$.diff"; mkdir -p "$VERIF/work"
case "$P" in
  revert:*) git diff "${P#revert:}" "${P#revert:}^" -- src > "$TMP" ;;
  *) cp "$P" "$TMP" ;;
esac
if ! git apply "$TMP"; then echo "patch does not apply" >&2; rm -f "$TMP"; exit 2; fi
trap 'git -C "$REPO" checkout -- . ; rm -f "$TMP"' EXIT
for id in "$@"; do
  out=$(cd "$VERIF" && VERIF_NO_EVIDENCE=1 ./check "$id" quick 2>&1); code=$?
  sigs=$(echo "$out" | grep '^--- ' | sed 's/^--- \([^ ]*\).*/\1/' | sort -u | tr '\n' ' ')
  echo "$id exit=$code $sigs"
  if [ "${SENS_VERBOSE:-0}" = 1 ]; then echo "$out" | cut -c1-400 | tail -8; fi
done
# SENS_OWN=<Cxx> SENS_OWN_SEEDS="2 3": the change's own check again under other PRNG seeds
if [ -n "${SENS_OWN:-}" ]; then
  for s in ${SENS_OWN_SEEDS:-2 3}; do
    out=$(cd "$VERIF" && VERIF_SEED=$s VERIF_NO_EVIDENCE=1 ./check "$SENS_OWN" quick 2>&1); code=$?
    echo "$SENS_OWN@seed=$s exit=$code"
  done
fi
