#!/bin/bash
# runall.sh [quick|thorough]: run every registered check, print one line each
tier="${1:-quick}"
cd /verif
rc=0
for id in $(python3 -c "import json;print(' '.join(c['property_id'] for c in json.load(open('MANIFEST.json'))['checks']))"); do
  s=$(date +%s.%N)
  out=$(./check "$id" "$tier" 2>&1); code=$?
  e=$(date +%s.%N)
  printf "%s exit=%d %.1fs  %s\n" "$id" "$code" "$(echo "$e - $s" | bc)" "$(echo "$out" | tail -1 | cut -c1-160)"
  if [ $code -ne 0 ]; then rc=1; echo "$out" | grep -E "^(---|VIOLATION|KNOWN)" | cut -c1-300 | head -5; fi
done
exit $rc
