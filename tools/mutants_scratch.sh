#!/bin/bash
# mutants_scratch.sh: run every hand-written mutant in /verif/mutants/*.diff against its own property's quick
# check in a scratch copy (/tmp/mu/{verif,repo}); writes /verif/mutants/results.txt. Also records whether the
# repository's own unit tests still pass with the mutant (informational).
set -u
MU=/tmp/mu
rm -rf $MU; mkdir -p $MU
git -C /repo worktree prune
git -C /repo worktree add -q --detach $MU/repo HEAD || exit 2
cp /repo/Cargo.lock $MU/repo/
git -C /verif archive --format=tar --prefix=verif/ HEAD | tar -x -C $MU
rsync -a /verif/mutants/ $MU/verif/mutants/
: > /verif/mutants/results.txt
for f in $MU/verif/mutants/*.diff; do
  n=$(basename $f .diff); id=${n%%-*}
  ( cd $MU/repo && git apply $f && ut=$(cargo test --offline --lib 2>&1 | grep "test result" | head -1 | sed 's/test result: //;s/;.*//') ; git checkout -q -- . ; echo "$ut" > $MU/ut.txt )
  r=$(VERIF=$MU/verif REPO=$MU/repo $MU/verif/tools/sens.sh $f $id 2>&1 | tail -1)
  echo "$n :: $r :: unit tests: $(cat $MU/ut.txt)" | tee -a /verif/mutants/results.txt
done
git -C /repo worktree remove --force $MU/repo
rm -rf $MU
