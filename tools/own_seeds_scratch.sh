#!/bin/bash
# own_seeds_scratch.sh [seed ...]: every seeded change against ITS OWN property's quick check under several
# PRNG seeds (default 1 2 3), in a scratch copy (/tmp/os/{verif,repo}); prints one line per (change, seed) that is
# NOT caught. A seeded change must be caught by its own check on every seed, not only on the default one.
set -u
SEEDS="${*:-1 2 3}"
OS=/tmp/os
rm -rf $OS; mkdir -p $OS
git -C /repo worktree prune
git -C /repo worktree add -q --detach $OS/repo HEAD || exit 2
cp /repo/Cargo.lock $OS/repo/
git -C /verif archive --format=tar --prefix=verif/ HEAD | tar -x -C $OS
rsync -a /verif/seeded/ $OS/verif/seeded/
miss=0
for d in $OS/verif/seeded/*/; do
  n=$(basename $d); id=${n%%-*}
  for s in $SEEDS; do
    out=$(VERIF_SEED=$s VERIF=$OS/verif REPO=$OS/repo $OS/verif/tools/sens.sh $d/patch.diff $id 2>&1)
    case "$out" in
      *"exit=1"*) ;;
      *) echo "MISSED $n seed=$s :: $out"; miss=$((miss+1)) ;;
    esac
  done
  echo "done $n"
done
echo "misses: $miss"
git -C /repo worktree remove --force $OS/repo
rm -rf $OS
