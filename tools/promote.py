#!/usr/bin/env python3
"""promote.py [Cxx ...]: copy the smallest replay per signature into /verif/regress/<Cxx>/ (seconds-long regress tier)."""
import json, sys, os, glob, re
props = sys.argv[1:] or [os.path.basename(d) for d in glob.glob('/verif/replays/*')]
for p in props:
    best = {}
    for f in glob.glob(f'/verif/replays/{p}/*.json'):
        j = json.load(open(f))
        n = len(json.dumps(j['case']))
        if j['sig'] not in best or n < best[j['sig']][0]:
            best[j['sig']] = (n, j)
    for sig, (n, j) in best.items():
        slug = re.sub(r'[^A-Za-z0-9]+', '-', sig.split('/', 1)[1]).strip('-')[:60]
        d = f'/verif/regress/{p}'
        os.makedirs(d, exist_ok=True)
        out = f'{d}/{slug}.json'
        if os.path.exists(out):
            continue
        j['msg'] = j['msg'].split(' [replay=')[0][:400]
        json.dump(j, open(out, 'w'), indent=1)
        print(out, n)
