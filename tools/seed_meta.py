#!/usr/bin/env python3
"""seed_meta.py: (re)write /verif/seeded/<name>/meta.json from catch.txt and a table of hand-written summaries."""
import json, os, glob, re
SUM = {
 "C01-1": ("C01", "ConnectTx::payload_len counts a constant 1 byte for the will property length field while encode() writes a 1-4 byte variable byte integer", "a CONNECT with a will whose will properties encode to >= 128 bytes (remaining length then 1-2 too small)"),
 "C02-1": ("C02", "AckRx::try_decode returns before reading the reason code whenever remaining length < 4", "a PUBACK/PUBREC/PUBCOMP in the 3-byte short form carrying a non-zero reason (publish() reports Ok instead of the error)"),
 "C03-1": ("C03", "RxPacketStream Idle arm skips the remaining-length re-parse once a provisional length is known", "a packet with remaining length >= 128 and a read ending strictly inside its remaining-length field"),
 "C04-1": ("C04", "Binary::try_decode checks the declared length against a buffer that still includes the 2-byte prefix", "a framed packet with Correlation Data / Authentication Data whose length field overshoots the available bytes by 1 or 2 (split_to panics)"),
 "C05-1": ("C05", "awaiting_ack entries removed with swap_remove_back instead of remove (order no longer preserved)", ">= 3 pings outstanding, or a keyed operation acknowledged before two outstanding pings: a later PINGRESP completes the wrong ping"),
 "C06-1": ("C06", "linear_search_by_key searches VecDeque::as_slices() and returns back-slice hits without adding front.len()", "two operations awaiting acknowledgement, the newer acknowledged first, after the ring buffer wrapped (3, 7, 11.. earlier completions)"),
 "C07-1": ("C07", "closed subscriptions collected as positions during dispatch and removed afterwards with stale indices", ">= 3 subscriptions, the streams of two dropped, one PUBLISH carrying both their identifiers in registration order: a third live subscription is unregistered"),
 "C08-1": ("C08", "PUBCOMP only sent when the PUBREL's identifier is in the unreleased set", "a PUBREL for an identifier not (or no longer) awaiting release, e.g. a repeated PUBREL"),
 "C09-1": ("C09", "re-delivery lookup uses binary_search on a queue kept in arrival order", "two inbound QoS 2 identifiers in flight that arrived in descending order, the larger one re-delivered"),
 "C10-1": ("C10", "PUBREC frees the quota slot for every non-Success reason instead of reason >= 0x80", "a QoS 2 publish answered with PUBREC 0x10 (No matching subscribers) while the quota is exhausted, then one more QoS>0 publish"),
 "C11-1": ("C11", "next_packet_id restarts the counter at 1 instead of 2 after handing out 1 on wrap", "allocation #65536 still outstanding when #65537 is made: both get identifier 1"),
 "C12-1": ("C12", "quota check and decrement moved before validate_packet_size in the AwaitAck arm", "an oversized QoS>0 publish is refused correctly but keeps its quota slot: visible only in later publishes under a small Receive Maximum"),
 "C13-1": ("C13", "FireAndForget arm returns Ok(is_disconnect) also from the size-check exit", "a user DISCONNECT refused as larger than the server's Maximum Packet Size: run() returns Ok(()) although nothing was written"),
 "C14-1": ("C14", "result of unbounded_send(pubrel_msg) kept in a binding across the await (the rejected message owns the oneshot sender)", "context dropped after it processed the PUBREC and before the QoS 2 publish future is polled again: the future waits on its own sender forever"),
 "C15-1": ("C15", "quota refund in the PUBACK/PUBCOMP arms moved inside the awaiting_ack lookup", "a QoS 2 publish dropped before its PUBREC: the context finishes the exchange itself, the PUBCOMP finds no awaiting_ack entry and the slot leaks"),
 "C16-1": ("C16", "ReadPacketData returns Pending (instead of re-polling the reader) when the packet is not complete yet", "a read that leaves >= 2 bytes but less than the whole packet buffered, under an executor that polls only woken tasks"),
 "C17-1": ("C17", "retrasmit_queue entries removed with swap_remove_back: re-send order no longer the original order", ">= 3 entries queued, one acknowledged that has >= 2 younger unacknowledged ones, connection lost, session resumed"),
 "C01-2": ("C01", "TxPacketStream::write replaced by a hand-written poll loop whose position variable resets on every poll", "within one packet: a partial poll_write acceptance followed by Pending (the accepted prefix is written again)"),
 "C02-2": ("C02", "UserProperties::get returns only the first contiguous run of pairs with the key", "received user properties repeating a key with a different key in between (a=1, b=2, a=3) read with get(\"a\")"),
 "C03-2": ("C03", "after a packet is cut off the buffer, leftover bytes are parsed only when more than 2 remain (> instead of >=)", "a read ending exactly after a complete 2-byte packet (PINGRESP, DISCONNECT e0 00) that follows another packet in the same read, with nothing (or EOF) after it"),
 "C04-2": ("C04", "run() skips a packet that fails with UnexpectedProperty via `continue`, jumping over the re-arming of the inbound future", "a well-formed packet with a valid but misplaced property while run() is serving: nothing is read from the transport any more, run() never returns"),
 "C05-2": ("C05", "tx_action_id shifts the packet identifier as u16 before widening (high byte lost)", "a QoS 1/2 publish with packet identifier >= 256: its acknowledgement matches no entry and the future never completes"),
 "C06-2": ("C06", "the PUBREL identifier is taken from the handle's shared counter instead of from the PUBREC", "another identifier allocated through a handle clone between the QoS 2 publish and the poll that sees its PUBREC"),
 "C07-2": ("C07", "the QoS 2 duplicate filter also trusts the DUP flag", "a QoS 2 PUBLISH with DUP=1 whose identifier is not awaiting release: answered with PUBREC but never delivered"),
 "C08-2": ("C08", "a QoS 2 PUBLISH repeated before its PUBREL is discarded without repeating the PUBREC", "the same QoS 2 packet identifier sent twice before PUBREL"),
 "C09-2": ("C09", "the unreleased identifier is recorded only if the LAST listed subscription identifier could be served", "QoS 2 PUBLISH listing [live, dropped] subscription identifiers, then re-sent before PUBREL: yielded twice to the live stream"),
 "C10-2": ("C10", "quota refund in the PUBACK/PUBCOMP arms only when an awaiting_ack entry is found", "a QoS 2 publish whose future is dropped before PUBREC: the context finishes the exchange, PUBCOMP finds no entry, the slot leaks"),
 "C11-2": ("C11", "subscribe() uses the packet identifier it just allocated as subscription identifier", "two subscribe() calls 65535 allocations apart (after the packet-id wrap) get the same subscription identifier"),
 "C12-2": ("C12", "connect() seeds the server's Maximum Packet Size from the client's own CONNECT maximum_packet_size", "ConnectOpts::maximum_packet_size(K) set, CONNACK without the property, request longer than K: refused although no M was announced"),
 "C13-2": ("C13", "server DISCONNECT treated as graceful for every reason < 0x80", "a server DISCONNECT with reason 0x04: run() returns Ok(()) instead of Disconnected"),
 "C14-2": ("C14", "disconnect() maps a cancelled confirmation to Ok(())", "a disconnect() future queued (polled once) but not yet processed, or stuck in the write, when the context is dropped"),
 "C15-2": ("C15", "on a failed SUBACK hand-over the context removes the stream registration keyed by the SUBACK's PACKET identifier", "a cancelled subscribe whose packet identifier equals the subscription identifier of a later, live subscription (identifiers out of step): that sibling stream ends"),
 "C16-2": ("C16", "TxPacketStream::write yields after every 8th short write by returning Pending without waking itself", "a writer accepting k bytes per call and a packet longer than 8k bytes under an executor that polls only woken tasks"),
 "C17-2": ("C17", "session_expired compares the elapsed time with the interval taken as milliseconds", "finite expiry E and E/1000 s < time since disconnection <= E s: a live session is reset, nothing re-sent"),
 "C05-3": ("C05", "linear_search_by_key scans VecDeque::as_slices() and returns second-slice hits without the offset (same mechanism as C06-1, found independently)", "ring buffer wrapped by earlier oldest-first acknowledgements, then a younger outstanding operation acknowledged before an older one"),
 "C06-3": ("C06", "the Ok reply of a fire-and-forget request (QoS 0 PUBLISH) is sent before tx.write()", "a writer under back-pressure (Pending / partial write / error) while the context handles a QoS 0 PUBLISH, and the publish future polled in that window"),
 "C07-3": ("C07", "subscribe() closes the stream receiver when ANY SUBACK reason code is >= 0x80", "a multi-filter SUBSCRIBE answered with a mixed SUBACK (granted + refused): all later messages of that subscription are dropped and the stream ends"),
 "C10-3": ("C10", "when the quota reads 0 it is recomputed as R minus the retransmission queue length", "a live QoS 2 publish whose PUBREC the context processed but whose future has not been polled since (no queue entry in that window), quota exhausted, another QoS>0 publish served in that window"),
 "C13-3": ("C13", "the select loop drains all queued requests in one go and keeps the exit decision of the LAST one", "a request already queued behind the user's DISCONNECT when the context serves it: it is written after the DISCONNECT and run() does not return"),
 "C14-3": ("C14", "SubscribeStream::poll_next returns Pending without waking itself after 32 consecutive items", "a stream with >= 32 buffered messages drained by a consumer that polls only after wake-ups: the rest and the end of the stream never arrive after the context is dropped"),
 "C15-3": ("C15", "a request whose response channel is already cancelled is dropped unwritten when taken off the queue", "the PUBREL of a QoS 2 publish dropped with its PUBREC delivered but unseen (guard path) or dropped right after queueing the PUBREL: never written, slot lost"),
 "C16-3": ("C16", "SubscribeStream::poll_next returns Pending after consuming a PUBLISH whose Payload Format Indicator is 1 but whose payload is not UTF-8", "such a message followed by another one for the same stream, consumer polled only when woken"),
 "C17-3": ("C17", "acknowledgement handling refactored into a helper that returns early when no awaiting_ack entry exists, before removing the retransmission copy", "QoS 2 publish dropped before PUBREC, context-sent PUBREL answered with PUBCOMP, connection lost, session resumed: the PUBREL is replayed"),
 "C03-3": ("C03", "RxPacketStream::poll_next gives up after 32 poll_read calls within one poll and returns Pending without waking itself", "one packet whose bytes arrive in more than 32 transport reads that are all ready back to back (e.g. a 34+ byte packet in single-byte reads all available at once), wake-only executor"),
 "C01-3": ("C01", "a PINGREQ is not written while another ping awaits its PINGRESP; one PINGRESP then resolves every waiting ping (two cooperating sites)", "a ping() reaching the context while an earlier ping is unanswered (two clones, or a dropped ping future followed by a new ping): a whole PINGREQ is missing from the wire although both futures complete"),
 "C02-3": ("C02", "CONNACK/AUTH decoders reject Authentication Data unless Authentication Method was seen earlier in the property block", "an extended-authentication reply whose property 0x16 precedes 0x15 (MQTT puts no order on properties)"),
 "C04-3": ("C04", "RxPacketStream keeps the previous packet length as a read hint and, while 'collecting', skips re-parsing the header (two hunks)", "a well-formed inbound packet >= 512 bytes whose last read ends with it, followed by short packets in later reads: they are taken off the transport and never decoded (silent stall, EOF still reported)"),
 "C08-3": ("C08", "'flow control hardening': an inbound QoS 2 PUBLISH is dropped when as many are unreleased as the SERVER's Receive Maximum", "CONNACK Receive Maximum N small, N inbound QoS 2 exchanges awaiting PUBREL, one more fresh QoS 2 PUBLISH: no PUBREC, no delivery"),
 "C09-3": ("C09", "identifier-hygiene helper called from the PUBCOMP arm too: the client's outbound PUBCOMP(N) erases inbound identifier N from the unreleased set", "inbound QoS 2 N delivered and unreleased, the client's own QoS 2 publish uses the same number N and completes, then the broker re-sends PUBLISH(N) before PUBREL: delivered twice"),
 "C11-3": ("C11", "a publish refused locally (quota / size) hands its identifier back with fetch_sub when the future sees the refusal", "another clone allocates between the refused publish's first poll and the poll that sees the refusal, and its operation is still outstanding at the next allocation: same identifier twice"),
 "C12-3": ("C12", "handle_connack takes the Maximum Packet Size only when Session Present is 0", "CONNACK with Session Present = 1 carrying Maximum Packet Size M, any request longer than M: written in full"),
 "C03-4": ("C03", "Idle arm keeps reading while the transport fills the offered chunk completely, and returns Pending from the follow-up read although complete packets are buffered", "bytes available at once are an exact multiple of the offered read sizes (512, 1024, 1536) and nothing follows: the buffered packets are released only by a later arrival"),
 "C05-4": ("C05", "the context writes the PUBREL itself on every PUBREC and the caller's PUBREL request only registers for the PUBCOMP (two sites)", "QoS 2 publish whose PUBCOMP is processed before its future is polled again after the PUBREC: the PUBCOMP is discarded, the PUBREL written a second time"),
 "C06-4": ("C06", "PUBLISH/PUBREL/other branches of the AwaitAck arm merged; the quota refusal now also applies to the PUBREL step", "send quota 0 when the PUBREL request is handled (Receive Maximum 1 with any QoS 2 publish; or the window filled by another publish meanwhile): no PUBREL, publish() fails with QuotaExceeded after its PUBLISH was written"),
 "C07-4": ("C07", "a SUBSCRIBE refused for size gives its subscription identifier back with fetch_sub when the future observes the refusal", "another clone subscribed between the refused subscribe's first poll and the poll that sees the refusal: the next subscribe reuses a live subscription's identifier, its stream never gets a message"),
 "C10-4": ("C10", "quota check and decrement moved above validate_packet_size", "CONNACK with Maximum Packet Size, an oversized QoS>0 publish while a slot is free, then enough publishes to need the lost slot (small Receive Maximum)"),
 "C13-4": ("C13", "set_up keeps the previous RxPacketStream and only swaps the stream (reattach does not reset the count of buffered bytes) - two sites", "the same Context set up again after a connection that ended inside a packet: connect() fails with a codec error or stays pending although the CONNACK arrived"),
 "C14-4": ("C14", "ping(): poll_fn fast path that registers the waker on the first poll only and later only try_recv()s", "a ping future polled at least twice with different wakers (moved between tasks / per-poll wakers), then the context dropped: the wake-up goes to the stale waker"),
 "C15-4": ("C15", "dead streams collected as deque positions during dispatch and removed afterwards with stale indices", "two dropped streams named (older first) in one PUBLISH and a live subscription registered right behind the later one: the live stream is unregistered"),
 "C16-4": ("C16", "poll_read returning Ready(Err(Interrupted | WouldBlock)) is answered with Poll::Pending although the reader stored no waker", "a transient read error of those kinds: under a wake-only executor nothing is read any more, any extra poll repairs it"),
 "C17-4": ("C17", "retransmit() takes the queue out of the session with mem::take and puts it back only on the normal exit", "the resumed connection breaks (write error) while the retransmission is being written; on the next resumption nothing is re-sent and the original futures hang"),
}
for d in sorted(glob.glob('/verif/seeded/*/')):
    name = os.path.basename(d.rstrip('/'))
    if name not in SUM: continue
    prop, change, needs = SUM[name]
    caught, lines = [], []
    cf = d + 'catch.txt'
    if os.path.exists(cf):
        for l in open(cf):
            m = re.match(r'(C\d+) exit=(\d+)\s*(.*)', l.strip())
            if m:
                lines.append({"check": m.group(1), "exit": int(m.group(2)), "signatures": m.group(3).split()})
                if m.group(2) == '1': caught.append(m.group(1))
    meta = {
      "name": name, "breaks_property": prop, "change": change, "needs_to_manifest": needs,
      "origin": "written by a fresh sub-agent that saw only the property text and its own scratch worktree of /repo",
      "confirmed_by": "tools/seed_verify.sh: in a scratch worktree of /repo HEAD the demo passes without the patch; with the patch the crate builds, the 93 unit tests and 8 doctests pass, and the demo fails",
      "demo": "demo.rs (integration test: copy to tests/demo.rs, cargo test --offline --features verif-hooks --test demo)",
      "checks_run": "tools/matrix.sh: git -C /repo apply patch.diff; ./check <Cxx> quick for all 17 checks; git -C /repo checkout -- .",
      "caught_by": caught, "own_check_catches": prop in caught, "per_check": lines,
    }
    json.dump(meta, open(d + 'meta.json', 'w'), indent=1)
    print(name, "caught by", caught)
