#!/usr/bin/env python3
"""seed_meta.py: (re)write /verif/seeded/<name>/meta.json from catch.txt and a table of hand-written summaries."""
import json, os, glob, re
SUM = {
 "C01-1": ("C01", "ConnectTx::payload_len counts a constant 1 byte for the will property length field while encode() writes a 1-4 byte variable byte integer", "a CONNECT with a will whose will properties encode to >= 128 bytes (remaining length then 1-2 too small)"),
 "C02-1": ("C02", "AckRx::try_decode returns before reading the reason code whenever remaining length < 4", "a PUBACK/PUBREC/PUBCOMP in the 3-byte short form carrying a non-zero reason (publish() reports Ok instead of the error)"),
 "C03-1": ("C03", "RxPacketStream Idle arm skips the remaining-length re-parse once a provisional length is known", "a packet with remaining length >= 128 and a read ending strictly inside its remaining-length field"),
 "C04-1": ("C04", "Binary::try_decode checks the declared length against a buffer that still includes the 2-byte prefix", "a framed packet with Correlation Data / Authentication Data whose length field overshoots the available bytes by 1 or 2 (split_to panics)"),
 "C05-1": ("C05", "awaiting_ack entries removed with swap_remove_back instead of remove (order no longer preserved)", ">= 3 pings outstanding, or a keyed operation acknowledged before two outstanding pings: a later PINGRESP completes the wrong ping"),
 "C06-1": ("C06", "linear_search_by_key searches VecDeque::as_slices() and returns back-slice hits without adding front.len()", "two operations awaiting acknowledgement, the newer acknowledged first, after the ring buffer wrapped (3, 7, 11.. earlier completions)"),
 "C07-1": ("C07", "closed subscriptions collected as positions during dispatch and removed afterwards with stale indices", ">= 3 subscriptions, the streams of two dropped, one PUBLISH carrying both their identifiers in registration order: a third live subscription is unregistered"),
 "C08-1": ("C08", "PUBCOMP only sent when the PUBREL's identifier is in the unreleased set", "a PUBREL for an identifier not (or no longer) awaiting release, e.g. a repeated PUBREL"),
 "C09-1": ("C09", "re-delivery lookup uses binary_search on a queue kept in arrival order", "two inbound QoS 2 identifiers in flight that arrived in descending order, the larger one re-delivered"),
 "C10-1": ("C10", "PUBREC frees the quota slot for every non-Success reason instead of reason >= 0x80", "a QoS 2 publish answered with PUBREC 0x10 (No matching subscribers) while the quota is exhausted, then one more QoS>0 publish"),
 "C11-1": ("C11", "next_packet_id restarts the counter at 1 instead of 2 after handing out 1 on wrap", "allocation #65536 still outstanding when #65537 is made: both get identifier 1"),
 "C12-1": ("C12", "quota check and decrement moved before validate_packet_size in the AwaitAck arm", "an oversized QoS>0 publish is refused correctly but keeps its quota slot: visible only in later publishes under a small Receive Maximum"),
 "C13-1": ("C13", "FireAndForget arm returns Ok(is_disconnect) also from the size-check exit", "a user DISCONNECT refused as larger than the server's Maximum Packet Size: run() returns Ok(()) although nothing was written"),
 "C14-1": ("C14", "result of unbounded_send(pubrel_msg) kept in a binding across the await (the rejected message owns the oneshot sender)", "context dropped after it processed the PUBREC and before the QoS 2 publish future is polled again: the future waits on its own sender forever"),
 "C15-1": ("C15", "quota refund in the PUBACK/PUBCOMP arms moved inside the awaiting_ack lookup", "a QoS 2 publish dropped before its PUBREC: the context finishes the exchange itself, the PUBCOMP finds no awaiting_ack entry and the slot leaks"),
 "C16-1": ("C16", "ReadPacketData returns Pending (instead of re-polling the reader) when the packet is not complete yet", "a read that leaves >= 2 bytes but less than the whole packet buffered, under an executor that polls only woken tasks"),
 "C17-1": ("C17", "retrasmit_queue entries removed with swap_remove_back: re-send order no longer the original order", ">= 3 entries queued, one acknowledged that has >= 2 younger unacknowledged ones, connection lost, session resumed"),
}
for d in sorted(glob.glob('/verif/seeded/*/')):
    name = os.path.basename(d.rstrip('/'))
    if name not in SUM: continue
    prop, change, needs = SUM[name]
    caught, lines = [], []
    cf = d + 'catch.txt'
    if os.path.exists(cf):
        for l in open(cf):
            m = re.match(r'(C\d+) exit=(\d+)\s*(.*)', l.strip())
            if m:
                lines.append({"check": m.group(1), "exit": int(m.group(2)), "signatures": m.group(3).split()})
                if m.group(2) == '1': caught.append(m.group(1))
    meta = {
      "name": name, "breaks_property": prop, "change": change, "needs_to_manifest": needs,
      "origin": "written by a fresh sub-agent that saw only the property text and its own scratch worktree of /repo",
      "confirmed_by": "tools/seed_verify.sh: in a scratch worktree of /repo HEAD the demo passes without the patch; with the patch the crate builds, the 93 unit tests and 8 doctests pass, and the demo fails",
      "demo": "demo.rs (integration test: copy to tests/demo.rs, cargo test --offline --features verif-hooks --test demo)",
      "checks_run": "tools/matrix.sh: git -C /repo apply patch.diff; ./check <Cxx> quick for all 17 checks; git -C /repo checkout -- .",
      "caught_by": caught, "own_check_catches": prop in caught, "per_check": lines,
    }
    json.dump(meta, open(d + 'meta.json', 'w'), indent=1)
    print(name, "caught by", caught)
