#!/bin/bash
# seed_verify.sh <name> <dir-with-patch.diff-and-demo.rs>
# Confirms in a scratch worktree of /repo HEAD that: the demo passes without the patch; with the patch the
# crate builds, the 93 lib tests + doctests pass, and the demo fails. Prints a summary, exit 0 if all confirmed.
set -u
NAME="$1"; SRC="$2"
WT=/tmp/sv/wt
if [ ! -d "$WT" ]; then mkdir -p /tmp/sv; git -C /repo worktree add -q --detach "$WT" HEAD || exit 2; fi
cd "$WT" || exit 2
git checkout -q --detach "$(git -C /repo rev-parse HEAD)" 2>/dev/null
git checkout -q -- . ; git clean -fdq -e target -e Cargo.lock
cp /repo/Cargo.lock . ; mkdir -p tests; cp "$SRC/demo.rs" tests/demo.rs
ok=1
out=$(cargo test --offline --features verif-hooks --test demo 2>&1); c0=$?
echo "[$NAME] demo WITHOUT patch: exit $c0 ($(echo "$out" | grep 'test result' | tail -1))"
[ $c0 -eq 0 ] || ok=0
if ! git apply "$SRC/patch.diff"; then echo "[$NAME] patch does not apply to /repo HEAD"; exit 1; fi
out=$(cargo test --offline --lib 2>&1); c1=$?
echo "[$NAME] lib tests WITH patch: exit $c1 ($(echo "$out" | grep 'test result' | tail -1))"
[ $c1 -eq 0 ] || ok=0
out=$(cargo test --offline --doc 2>&1); c3=$?
echo "[$NAME] doc tests WITH patch: exit $c3 ($(echo "$out" | grep 'test result' | tail -1))"
[ $c3 -eq 0 ] || ok=0
out=$(cargo test --offline --features verif-hooks --test demo 2>&1); c2=$?
echo "[$NAME] demo WITH patch: exit $c2 ($(echo "$out" | grep 'test result' | tail -1))"
[ $c2 -ne 0 ] || ok=0
git checkout -q -- . ; rm -f tests/demo.rs
[ $ok -eq 1 ] && echo "[$NAME] CONFIRMED" || echo "[$NAME] NOT CONFIRMED"
[ $ok -eq 1 ]
