#!/bin/bash
# own_final.sh <seeded-name> [...]: each seeded change against its OWN property's quick check (default PRNG seed)
# in a scratch copy (/tmp/of/{verif,repo}); one line per change in /verif/seeded/OWN_FINAL.txt
set -u
OF=/tmp/of
rm -rf $OF; mkdir -p $OF
git -C /repo worktree prune
git -C /repo worktree add -q --detach $OF/repo HEAD || exit 2
cp /repo/Cargo.lock $OF/repo/
git -C /verif archive --format=tar --prefix=verif/ HEAD | tar -x -C $OF
rsync -a /verif/seeded/ $OF/verif/seeded/
[ -n "${OWN_APPEND:-}" ] || : > /verif/seeded/OWN_FINAL.txt
echo "# harness $(git -C /verif rev-parse --short HEAD), /repo $(git -C /repo rev-parse --short HEAD), default PRNG seed" >> /verif/seeded/OWN_FINAL.txt
for n in "$@"; do
  id="${n%%-*}"
  out=$(VERIF=$OF/verif REPO=$OF/repo $OF/verif/tools/sens.sh "$OF/verif/seeded/$n/patch.diff" "$id" 2>&1 | tail -1)
  echo "$n $out" >> /verif/seeded/OWN_FINAL.txt
done
git -C /repo worktree remove --force $OF/repo
rm -rf $OF
