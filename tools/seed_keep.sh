#!/bin/bash
# seed_keep.sh <name> <Cxx> <srcdir>: copy a confirmed seeded change into /verif/seeded/<name>/
set -u
N="$1"; P="$2"; S="$3"
D=/verif/seeded/$N; mkdir -p "$D"
cp "$S/patch.diff" "$D/patch.diff"; cp "$S/demo.rs" "$D/demo.rs"; cp "$S/meta.md" "$D/agent-notes.md" 2>/dev/null
echo "$D"
