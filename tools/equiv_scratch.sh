#!/bin/bash
# equiv_scratch.sh: property-preserving variants of /repo (/verif/equiv/*.diff: other identifier policies, buffer
# sizes, property orders, legal reason codes, refactors). Every registered quick check must stay SILENT (exit 0) on
# each of them. Runs in a scratch copy; writes /verif/equiv/results.txt; lists any alarm.
set -u
EQ=/tmp/eq
rm -rf $EQ; mkdir -p $EQ
git -C /repo worktree prune
git -C /repo worktree add -q --detach $EQ/repo HEAD || exit 2
cp /repo/Cargo.lock $EQ/repo/
git -C /verif archive --format=tar --prefix=verif/ HEAD | tar -x -C $EQ
rsync -a /verif/equiv/ $EQ/verif/equiv/
IDS="${EQ_IDS:-$(python3 -c "import json;print(' '.join(c['property_id'] for c in json.load(open('/verif/MANIFEST.json'))['checks']))")}"
RES="${EQ_RESULTS:-/verif/equiv/results.txt}"
: > $RES
for f in $EQ/verif/equiv/*.diff; do
  n=$(basename $f .diff)
  out=$(VERIF=$EQ/verif REPO=$EQ/repo $EQ/verif/tools/sens.sh $f $IDS 2>&1)
  bad=$(echo "$out" | grep -v "exit=0" | tr '\n' ';')
  echo "$n :: ${bad:-all $(echo $IDS | wc -w) checks silent}" | tee -a $RES
done
git -C /repo worktree remove --force $EQ/repo
rm -rf $EQ
