#!/usr/bin/env python3
"""Rewrite the '<!-- MATRIX:BEGIN -->..<!-- MATRIX:END -->' block of DESIGN.md from /verif/seeded/*/meta.json."""
import json, glob, os, re
rows = []
for f in sorted(glob.glob('/verif/seeded/*/meta.json')):
    m = json.load(open(f))
    others = [c for c in m['caught_by'] if c != m['breaks_property']]
    rows.append(f"| {m['name']} | {m['breaks_property']} | {m['change']} | {m['needs_to_manifest']} | "
                f"{'**yes**' if m['own_check_catches'] else '**NO**'} | {', '.join(others) or '—'} |")
table = "| seeded change | breaks | change | needs, to manifest | own check catches | also flagged by |\n|---|---|---|---|---|---|\n" + "\n".join(rows)
p = '/verif/DESIGN.md'
s = open(p).read()
s = re.sub(r'<!-- MATRIX:BEGIN -->.*<!-- MATRIX:END -->', '<!-- MATRIX:BEGIN -->\n' + table.replace('\\', '\\\\') + '\n<!-- MATRIX:END -->', s, flags=re.S)
open(p, 'w').write(s)
print(len(rows), 'rows')
