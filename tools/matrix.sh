#!/bin/bash
# matrix.sh <seeded-name> [...]: run every registered quick check against each seeded change, write
# /verif/seeded/<name>/catch.txt (one line per check: id exit signatures)
VERIF="${VERIF:-$(cd "$(dirname "$0")/.." && pwd)}"
OUT="${MATRIX_OUT:-$VERIF/seeded}"
cd "$VERIF"
IDS=$(python3 -c "import json;print(' '.join(c['property_id'] for c in json.load(open('MANIFEST.json'))['checks']))")
for n in "$@"; do
  out=$(SENS_OWN="${n%%-*}" tools/sens.sh "$VERIF/seeded/$n/patch.diff" $IDS 2>&1)
  echo "$out" > "$OUT/$n/catch.txt"
  echo "== $n: caught by: $(echo "$out" | grep 'exit=1' | grep -v '@seed' | cut -d' ' -f1 | tr '\n' ' ') | own check under other seeds: $(echo "$out" | grep '@seed' | tr '\n' ' ')"
done
