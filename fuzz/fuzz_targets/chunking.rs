#![no_main]
use libfuzzer_sys::fuzz_target;
use vharness::{fuzzing, props::c03::C03};
// C03/C16: inbound streams x read compositions, metamorphic oracle
fuzz_target!(|data: &[u8]| {
    fuzzing::check("chunking", fuzzing::fuzz_struct::<C03>(data));
});
