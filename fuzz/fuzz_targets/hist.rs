#![no_main]
use libfuzzer_sys::fuzz_target;
use vharness::{fuzzing, props::simprops::*};
// histories against the reference session model; the first byte selects the property
fuzz_target!(|data: &[u8]| {
    let (sel, rest) = match data.split_first() {
        Some(x) => x,
        None => return,
    };
    let r = match sel % 7 {
        0 => fuzzing::fuzz_struct::<C06>(rest),
        1 => fuzzing::fuzz_struct::<C07>(rest),
        2 => fuzzing::fuzz_struct::<C08>(rest),
        3 => fuzzing::fuzz_struct::<C09>(rest),
        4 => fuzzing::fuzz_struct::<C10>(rest),
        5 => fuzzing::fuzz_struct::<C13>(rest),
        _ => fuzzing::fuzz_struct::<C15>(rest),
    };
    fuzzing::check("hist", r);
});
