#![no_main]
use libfuzzer_sys::fuzz_target;
use vharness::fuzzing;
// histories against the reference session model; the first byte (or $VERIF_HIST_SEL)
// selects the property: C06, C07, C08, C09, C10, C13, C15
fuzz_target!(|data: &[u8]| {
    fuzzing::check("hist", fuzzing::fuzz_hist(data));
});
