#![no_main]
use libfuzzer_sys::fuzz_target;
use vharness::{fuzzing, props::c02::C02};
// C02: structured well-formed server packets -> accessor values
fuzz_target!(|data: &[u8]| {
    fuzzing::check("rx_struct", fuzzing::fuzz_struct::<C02>(data));
});
