#![no_main]
use libfuzzer_sys::fuzz_target;
use vharness::fuzzing;
// C04 (and C13's "some error for undecodable input"): raw inbound bytes in every phase
fuzz_target!(|data: &[u8]| {
    fuzzing::check("rx_raw", fuzzing::fuzz_rx_raw(data));
});
