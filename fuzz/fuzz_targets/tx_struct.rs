#![no_main]
use libfuzzer_sys::fuzz_target;
use vharness::{fuzzing, props::c01::C01};
// C01: structured requests -> strict independent decoder round trip
fuzz_target!(|data: &[u8]| {
    fuzzing::check("tx_struct", fuzzing::fuzz_struct::<C01>(data));
});
