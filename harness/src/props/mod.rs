pub mod common;
pub mod c01;
pub mod c02;
pub mod simprops;
