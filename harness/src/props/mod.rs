pub mod common;
pub mod c01;
