pub mod common;
pub mod c01;
pub mod c02;
pub mod c03;
pub mod c04;
pub mod misc;
pub mod simprops;
