//! C04 — no inbound bytes, packet order or transport fault can panic or wedge the client.

use super::c02;
use super::common::*;
use crate::api::*;
use crate::driver::*;
use crate::gen;
use crate::mockio::WriteFault;
use crate::refcodec as rc;
use crate::world::*;
use proptest::collection::vec;
use proptest::prelude::*;
use serde::{Deserialize, Serialize};

#[derive(Clone, Copy, Debug, PartialEq, Eq, Serialize, Deserialize)]
pub enum Phase {
    Connect,
    Authorize,
    /// run() with a subscription (stream open), a QoS 1 and a QoS 2 publish, and a ping outstanding
    Run,
}

#[derive(Clone, Debug, PartialEq, Eq, Serialize, Deserialize)]
pub enum Fault {
    None,
    /// end-of-stream once this many input bytes have been delivered
    Eof(u16),
    ReadErr(u16),
    /// the write side fails after this many bytes written by the client (whole connection)
    WriteErr(u16),
    WriteZero(u16),
}

#[derive(Clone, Debug, Serialize, Deserialize)]
pub struct Case {
    pub phase: Phase,
    /// how the input was derived (for classification only)
    pub label: String,
    pub bytes: Vec<u8>,
    /// read chunk size (0 = one chunk)
    pub chunk: u16,
    pub fault: Fault,
}

pub struct C04;

const ALPHABET: &[u8] = &[
    0x00, 0x01, 0x02, 0x7f, 0x80, 0xff, 0x10, 0x20, 0x30, 0x32, 0x34, 0x3f, 0x40, 0x50, 0x62, 0x60, 0x70,
    0x82, 0x90, 0xa2, 0xb0, 0xc0, 0xd0, 0xe0, 0xf0, 11, 17, 21, 22, 31, 33, 35, 38, 39, 41,
];

fn base_packet() -> BoxedStrategy<(Vec<u8>, String)> {
    (c02::input(false), gen::form())
        .prop_map(|(inp, form)| {
            let (pkt, name) = c02::packet_of(&inp);
            (rc::encode(&pkt, &form), name.to_string())
        })
        .boxed()
}

fn rewrite_rl(bytes: &[u8], new_rl: u32) -> Vec<u8> {
    // replace the remaining-length field of the first packet
    let (_, body, used) = match rc::split_frame(bytes) {
        Ok(x) => x,
        Err(_) => return bytes.to_vec(),
    };
    let mut out = vec![bytes[0]];
    rc::put_varint(&mut out, new_rl.min(268_435_455));
    out.extend_from_slice(body);
    out.extend_from_slice(&bytes[used..]);
    out
}

fn mutant() -> BoxedStrategy<(Vec<u8>, String)> {
    (base_packet(), 0u8..14, any::<u16>(), any::<u8>(), any::<bool>())
        .prop_map(|((mut b, name), kind, pos, val, flag)| {
            let n = b.len().max(1);
            let at = ((pos as usize) * n) >> 16;
            let rl = rc::split_frame(&b).map(|x| x.1.len() as u32).unwrap_or(0);
            let label;
            match kind {
                0 => {
                    // truncate, remaining length untouched
                    b.truncate(at.max(1));
                    label = "truncate";
                }
                1 => {
                    // truncate and fix the remaining length
                    let hdr = 1 + rc::varint_len(rl);
                    if at > hdr {
                        b.truncate(at);
                        b = rewrite_rl(&{
                            let mut x = b.clone();
                            x.extend(std::iter::repeat(0).take(rl as usize)); // make split_frame happy
                            x
                        }, (at - hdr) as u32);
                        b.truncate(1 + rc::varint_len((at - hdr) as u32) + (at - hdr));
                    }
                    label = "truncate+fix-rl";
                }
                2 => {
                    b = rewrite_rl(&b, if flag { rl + 1 } else { rl.saturating_sub(1) });
                    label = "rl+-1";
                }
                3 => {
                    b = rewrite_rl(&b, rl * 2 + 1);
                    label = "rl*2";
                }
                4 => {
                    // over-long variable byte integer as remaining length
                    let body = rc::split_frame(&b).map(|x| x.1.to_vec()).unwrap_or_default();
                    let mut x = vec![b[0]];
                    if flag {
                        x.extend([0xff, 0xff, 0xff, 0xff, 0x7f]);
                    } else {
                        x.extend([0x80 | (rl as u8 & 0x7f), 0x80, 0x80, 0x80, 0x01]);
                    }
                    x.extend(body);
                    b = x;
                    label = "5-byte-varint";
                }
                5 => {
                    b[at.min(n - 1)] ^= 1 << (val % 8);
                    label = "bit-flip";
                }
                6 => {
                    b[at.min(n - 1)] = ALPHABET[val as usize % ALPHABET.len()];
                    label = "byte-set";
                }
                7 => {
                    let ins: Vec<u8> = (0..(val % 4 + 1)).map(|i| ALPHABET[(val as usize + i as usize * 7) % ALPHABET.len()]).collect();
                    let p = at.min(b.len());
                    b.splice(p..p, ins);
                    if flag {
                        b = rewrite_rl(&b, rl + (val % 4 + 1) as u32);
                    }
                    label = "insert";
                }
                8 => {
                    let p = at.min(n - 1);
                    let e = (p + (val % 4 + 1) as usize).min(b.len());
                    let removed = e - p;
                    b.drain(p..e);
                    if flag && !b.is_empty() {
                        b = rewrite_rl(&{
                            let mut x = b.clone();
                            x.extend(std::iter::repeat(0).take(removed));
                            x
                        }, rl.saturating_sub(removed as u32));
                        let keep = b.len() - removed.min(b.len());
                        b.truncate(keep);
                    }
                    label = "delete";
                }
                9 => {
                    // zero the two bytes where a packet identifier usually sits
                    let hdr = 1 + rc::varint_len(rl);
                    if b.len() >= hdr + 2 && (b[0] >> 4) != 3 {
                        b[hdr] = 0;
                        b[hdr + 1] = 0;
                    }
                    label = "zero-identifier";
                }
                10 => {
                    // splice a property that belongs to another packet type / unknown id
                    let props: [&[u8]; 6] = [&[33, 0, 0], &[36, 3], &[99, 1], &[11, 0], &[38, 0, 1], &[17, 0, 0, 0]];
                    let ins = props[val as usize % props.len()];
                    let p = at.min(b.len());
                    b.splice(p..p, ins.iter().copied());
                    b = rewrite_rl(&b, rl + ins.len() as u32);
                    label = "property-splice";
                }
                11 | 12 => {
                    // a two-byte length prefix that overshoots / undershoots by one or two: added
                    // to the big-endian u16 at a position biased towards the end of the packet,
                    // where a string or binary field has nothing behind it
                    let back = (val as usize % 24).min(n.saturating_sub(2));
                    let p = if kind == 11 { n.saturating_sub(2 + back) } else { at.min(n.saturating_sub(2)) };
                    if p + 1 < b.len() && p >= 1 {
                        let v = u16::from_be_bytes([b[p], b[p + 1]]);
                        let d = 1 + (pos % 2);
                        let v2 = if flag { v.wrapping_add(d) } else { v.wrapping_sub(d) };
                        b[p..p + 2].copy_from_slice(&v2.to_be_bytes());
                    }
                    label = "length-prefix+-";
                }
                _ => {
                    label = "valid-packet-any-phase";
                }
            }
            (b, format!("{label}:{name}"))
        })
        .boxed()
}

fn raw() -> BoxedStrategy<(Vec<u8>, String)> {
    vec(prop::sample::select(ALPHABET), 0..64)
        .prop_map(|b| (b, "raw-alphabet".to_string()))
        .boxed()
}

/// whole well-formed packets of 500..3000 bytes (every type that can be that long), alone or
/// followed by short packets
fn large() -> BoxedStrategy<(Vec<u8>, String)> {
    let big = (0usize..6, 480usize..3000).prop_map(|(k, n)| {
        let text = "x".repeat(n);
        let p = match k {
            0 => rc::Packet::Publish(rc::Publish { qos: 0, topic: "big".into(), payload: vec![0x5a; n], ..Default::default() }),
            1 => rc::Packet::Publish(rc::Publish { qos: 1, pid: Some(9), topic: text.clone(), payload: vec![1], subscription_ids: vec![1], ..Default::default() }),
            2 => rc::Packet::Connack(rc::Connack { reason_string: Some(text.clone()), ..Default::default() }),
            3 => rc::Packet::Puback(rc::Ack { pid: 1, reason: 0x10, reason_string: Some(text.clone()), ..Default::default() }),
            4 => rc::Packet::Suback(rc::AckList { pid: 1, reasons: vec![0; n], ..Default::default() }),
            _ => rc::Packet::Pubcomp(rc::Ack { pid: 2, reason: 0, user_props: vec![("k".into(), text.clone())], ..Default::default() }),
        };
        (rc::encode(&p, &rc::Form::canonical()), format!("large-{}", p.name()))
    });
    prop_oneof![
        2 => big.clone(),
        1 => (big.clone(), base_packet()).prop_map(|((mut a, la), (b, lb))| {
            a.extend(b);
            (a, format!("{la}+{lb}"))
        }),
        1 => (big.clone(), big).prop_map(|((mut a, la), (b, lb))| {
            a.extend(b);
            (a, format!("{la}+{lb}"))
        }),
    ]
    .boxed()
}

pub fn input_bytes() -> BoxedStrategy<(Vec<u8>, String)> {
    prop_oneof![
        3 => raw(),
        2 => large(),
        9 => mutant(),
        // two packets back to back
        2 => (mutant(), mutant()).prop_map(|((mut a, la), (b, lb))| {
            a.extend(b);
            (a, format!("{la}+{lb}"))
        }),
    ]
    .boxed()
}

fn tolerated_panic(msg: &str) -> bool {
    msg.contains("Subscription identifier support is required")
}

fn serving_probe(
    w: &mut World,
    plan: &WritePlan,
    case: &Case,
    ph: &str,
    check_panics: &dyn Fn(&World, &mut Outcome) -> Option<Failure>,
    out: &mut Outcome,
) -> Option<Failure> {
    w.sync_wire();
    let before = w.pkts.len();
    let probe = rc::Packet::Publish(rc::Publish { qos: 1, topic: "c04/probe".into(), pid: Some(0x7777), payload: b"probe".to_vec(), ..Default::default() });
    feed_packet(w, &probe, &rc::Form::canonical());
    settle(w, plan, true);
    if let Some(f) = check_panics(w, out) {
        return Some(f);
    }
    if w.budget_exhausted {
        return Some(Failure { sig: format!("C04/livelock/{ph}"), msg: format!("poll budget exhausted after the probe; input {}", hex(&case.bytes)) });
    }
    out.class("serving-probe");
    if w.run_result.is_some() {
        return None; // C13 judges why run() returned
    }
    w.sync_wire();
    let acked = w.pkts[before..].iter().any(|p| matches!(&p.decoded, Ok(rc::Packet::Puback(a)) if a.pid == 0x7777));
    if !acked {
        return Some(Failure {
            sig: format!("C04/stall/not-serving-after-input/{ph}"),
            msg: format!(
                "run() is pending and every input frame was taken, but a QoS 1 PUBLISH delivered afterwards is not acknowledged ({} bytes of it unread): the client is wedged; input {} ({}), read chunk {}",
                w.reader.unread(),
                hex(&case.bytes),
                case.label,
                case.chunk
            ),
        });
    }
    None
}

/// Returns Err(failure) or Ok(outcome classes)
pub fn run_bytes(case: &Case, out: &mut Outcome) -> Option<Failure> {
    let plan = WritePlan::default();
    let mut w = World::new();
    let ph = format!("{:?}", case.phase).to_lowercase();
    // write faults apply from the first byte the client writes
    match case.fault {
        Fault::WriteErr(at) => w.writer.set_fault(WriteFault::ErrAt(at as usize)),
        Fault::WriteZero(at) => w.writer.set_fault(WriteFault::ZeroAt(at as usize)),
        _ => {}
    }
    let write_fault = matches!(case.fault, Fault::WriteErr(_) | Fault::WriteZero(_));
    let mut prologue_ok = true;
    w.tick();
    match case.phase {
        Phase::Connect => {
            w.start_connect(ConnectSpec::default());
            settle(&mut w, &plan, false);
        }
        Phase::Authorize => {
            w.start_connect(ConnectSpec { auth_method: Some("m".into()), auth_data: Some(vec![1]), ..Default::default() });
            settle(&mut w, &plan, false);
            w.reader.feed(rc::encode(
                &rc::Packet::Auth(rc::Auth { reason: 0x18, method: Some("m".into()), data: Some(vec![2]), ..Default::default() }),
                &rc::Form::canonical(),
            ));
            settle(&mut w, &plan, false);
            if matches!(w.conn_results.last(), Some(ConnRes::Auth(_))) {
                w.tick();
                w.start_authorize(AuthSpec { reason: Some(0x18), method: Some("m".into()), data: Some(vec![3]), user_props: vec![] });
                settle(&mut w, &plan, false);
            } else {
                prologue_ok = false;
            }
        }
        Phase::Run => {
            if connect_and_run(&mut w, ConnectSpec::default(), &default_connack(), &plan).is_ok() {
                let mut tr = Tracker::new();
                tr.skip_existing(&mut w);
                let s = w.start_op(0, OpSpec::Subscribe(tagged_subscribe(0, 1))).unwrap();
                settle(&mut w, &plan, false);
                tr.update(&mut w);
                if let Some(pid) = tr.pid(s) {
                    feed_packet(&mut w, &rc::Packet::Suback(rc::AckList { pid, reasons: vec![0], ..Default::default() }), &rc::Form::canonical());
                    settle(&mut w, &plan, false);
                    w.make_stream(s);
                }
                // two more subscriptions: the stream of the first is taken and dropped at once (its
                // registration stays until a message finds it dead), the second stays alive
                for k in [20usize, 21] {
                    let s2 = w.start_op(0, OpSpec::Subscribe(tagged_subscribe(k, 1))).unwrap();
                    settle(&mut w, &plan, false);
                    tr.update(&mut w);
                    if let Some(pid) = tr.pid(s2) {
                        feed_packet(&mut w, &rc::Packet::Suback(rc::AckList { pid, reasons: vec![0], ..Default::default() }), &rc::Form::canonical());
                        settle(&mut w, &plan, false);
                        if let Some(si) = w.make_stream(s2) {
                            if k == 20 {
                                w.drop_stream(si);
                            }
                        }
                    }
                }
                w.start_op(0, OpSpec::Publish(tagged_publish(1, 1)));
                w.start_op(0, OpSpec::Publish(tagged_publish(2, 2)));
                w.start_op(0, OpSpec::Ping);
                settle(&mut w, &plan, false);
                // and a subscribe given up by its caller while its SUBACK is still to come
                // (packet identifier 6, subscription identifier 4)
                if let Some(c) = w.start_op(0, OpSpec::Subscribe(tagged_subscribe(22, 1))) {
                    settle(&mut w, &plan, false);
                    w.drop_op(c);
                    settle(&mut w, &plan, false);
                }
            } else {
                prologue_ok = false;
            }
        }
    }
    if !prologue_ok && !write_fault {
        return Some(Failure { sig: "HARNESS/prologue".into(), msg: format!("{:?} {:?}", w.conn_results, w.panics) });
    }
    // the input, chunked, with the read fault at its offset
    let (cut, is_err) = match case.fault {
        Fault::Eof(k) => (Some(k as usize), false),
        Fault::ReadErr(k) => (Some(k as usize), true),
        _ => (None, false),
    };
    // inputs too large to be carried in the case: built here from the label
    let huge: Vec<u8>;
    let all_bytes: &[u8] = if let Some(n) = case.label.strip_prefix("huge-publish/").and_then(|s| s.parse::<usize>().ok()) {
        huge = rc::encode(&rc::Packet::Publish(rc::Publish { qos: 1, pid: Some(9), topic: "huge".into(), payload: vec![0xa5; n], ..Default::default() }), &rc::Form::canonical());
        &huge
    } else {
        &case.bytes
    };
    let data = &all_bytes[..cut.unwrap_or(all_bytes.len()).min(all_bytes.len())];
    w.tick();
    if case.chunk == 0 {
        w.reader.feed(data.to_vec());
    } else {
        for c in data.chunks(case.chunk as usize) {
            w.reader.feed(c.to_vec());
            settle(&mut w, &plan, true);
        }
    }
    if cut.is_some() {
        if is_err {
            w.reader.set_err();
        } else {
            w.reader.set_eof();
        }
    }
    settle(&mut w, &plan, true);

    let check_panics = |w: &World, out: &mut Outcome| -> Option<Failure> {
        for (who, m) in &w.panics {
            if tolerated_panic(m) {
                out.excluded.push("documented subscription-identifier assertion".into());
                continue;
            }
            return Some(Failure {
                sig: format!("C04/panic/{}", panic_sig(m)),
                msg: format!("[{ph}] panic in {who}: {m}; input {} ({})", hex(&case.bytes), case.label),
            });
        }
        None
    };
    if let Some(f) = check_panics(&w, out) {
        return Some(f);
    }
    if w.budget_exhausted {
        return Some(Failure { sig: format!("C04/livelock/{ph}"), msg: format!("poll budget exhausted; input {}", hex(&case.bytes)) });
    }
    let tolerated = w.panics.iter().any(|(_, m)| tolerated_panic(m));
    let returned = |w: &World| -> bool {
        match case.phase {
            Phase::Run => w.run_result.is_some() || !prologue_ok,
            Phase::Connect => !w.conn_results.is_empty(),
            Phase::Authorize => w.conn_results.len() >= 2 || !prologue_ok,
        }
    };
    if tolerated {
        out.class("outcome-tolerated-assertion");
        return None;
    }
    // at quiescence: returned, or everything offered has been consumed and no fault is unreported
    if !returned(&w) {
        if w.reader.unread() > 0 {
            return Some(Failure {
                sig: format!("C04/stall-with-unread-input/{ph}"),
                msg: format!("{} of {} input bytes unread at quiescence, the call has not returned; input {} ({})", w.reader.unread(), data.len(), hex(&case.bytes), case.label),
            });
        }
        if cut.is_some() {
            return Some(Failure {
                sig: format!("C04/no-return-after-transport-end/{ph}"),
                msg: format!("the transport reported {} but the call is still pending; input {} ({})", if is_err { "an error" } else { "end-of-stream" }, hex(&case.bytes), case.label),
            });
        }
        out.class("outcome-keeps-serving");
        // "keeps serving" is meant literally: when the input was a sequence of whole frames (so the
        // client is at a packet boundary) a QoS 1 PUBLISH arriving now must be acknowledged
        if case.phase == Phase::Run && !write_fault && prologue_ok && rc::frames(data).1 == 0 {
            if let Some(f) = serving_probe(&mut w, &plan, case, &ph, &check_panics, out) {
                return Some(f);
            }
        }
        // closing: the transport ends now; the call must return
        w.tick();
        w.reader.set_eof();
        settle(&mut w, &plan, true);
        if let Some(f) = check_panics(&w, out) {
            return Some(f);
        }
        if !returned(&w) {
            return Some(Failure {
                sig: format!("C04/no-return-after-transport-end/{ph}"),
                msg: format!("end-of-stream after the input: the call is still pending; input {} ({})", hex(&case.bytes), case.label),
            });
        }
    } else {
        let kind = match case.phase {
            Phase::Run => match &w.run_result {
                Some(RunRes::Ok) => "ok".to_string(),
                Some(RunRes::Err(e)) => e.kind().to_string(),
                None => "prologue-failed".into(),
            },
            _ => match w.conn_results.last() {
                Some(ConnRes::Err(e)) => e.kind().to_string(),
                Some(_) => "ok".into(),
                None => "none".into(),
            },
        };
        out.class(format!("outcome-returned-{kind}"));
        // the caller tries again on the same transport (no set_up): whatever that call does, it
        // must not panic or spin
        if !w.panics.iter().any(|(_, m)| !tolerated_panic(m)) && w.ctx_idle_or_returned() {
            w.tick();
            if w.start_run() {
                settle(&mut w, &plan, true);
                if let Some(f) = check_panics(&w, out) {
                    return Some(Failure { sig: f.sig, msg: format!("[run() called again after the call had returned] {}", f.msg) });
                }
                if w.budget_exhausted {
                    return Some(Failure { sig: format!("C04/livelock/{ph}"), msg: format!("poll budget exhausted when run() was called again; input {}", hex(&case.bytes)) });
                }
                out.class("called-again-after-return");
                // and again with every handle gone, and once more after that
                if w.ctx_idle_or_returned() {
                    for h in 0..w.handles.len() {
                        w.drop_handle(h);
                    }
                    for _ in 0..2 {
                        if !w.ctx_idle_or_returned() {
                            break;
                        }
                        w.tick();
                        if !w.start_run() {
                            break;
                        }
                        settle(&mut w, &plan, true);
                        if let Some(f) = check_panics(&w, out) {
                            return Some(Failure { sig: f.sig, msg: format!("[run() called again after it had returned and every handle was dropped] {}", f.msg) });
                        }
                    }
                }
            }
        }
        // a connection that was accepted must be servable: run() on it answers a QoS 1 PUBLISH
        // (whatever else the input contained is run()'s to handle or to fail on)
        let accepted = matches!(w.conn_results.last(), Some(ConnRes::Connack(c)) if c.reason < 0x80);
        if case.phase != Phase::Run && accepted && case.fault == Fault::None && rc::frames(data).1 == 0 && !tolerated {
            w.tick();
            w.start_run();
            settle(&mut w, &plan, true);
            if let Some(f) = check_panics(&w, out) {
                return Some(f);
            }
            if w.run_result.is_none() {
                if let Some(f) = serving_probe(&mut w, &plan, case, &ph, &check_panics, out) {
                    return Some(f);
                }
            }
        }
    }
    // everything else the user holds must not be wedged in a panic either: drain
    for s in 0..w.streams.len() {
        w.drain_stream(s);
    }
    w.drop_ctx();
    settle(&mut w, &plan, true);
    check_panics(&w, out)
}

impl Property for C04 {
    const ID: &'static str = "C04";
    const RULE: &'static str = "inputs: byte strings <= 64 bytes over a boundary alphabet (0x00,0x01,0x02,0x7f,0x80,0xff, all packet-type bytes, property ids); mutants of valid packets of all eleven types (truncation at any offset with/without fixing the remaining length, remaining length +-1 and *2, 5-byte variable byte integers, bit flips, byte sets, inserts, deletes, zeroed identifiers, property splices); every valid packet type in every phase; one or two packets; delivered during connect(), authorize() or run() (with a stream, QoS 1 + QoS 2 publishes and a ping outstanding) in one chunk or 1/2/3/7-byte reads; faults: EOF / read error at any input offset, write error / write-zero at any offset of what the client writes. Oracle: no panic (documented assertion tolerated and counted); at quiescence the call has returned or no offered byte is unread; after the transport ends the call has returned. Non-trivial = the input is not a single well-formed packet expected in that phase, or a fault is injected";
    type Case = Case;

    fn strategy(_tier: Tier) -> BoxedStrategy<Case> {
        (
            prop::sample::select(vec![Phase::Connect, Phase::Authorize, Phase::Run, Phase::Run]),
            input_bytes(),
            prop_oneof![3 => Just(0u16), 2 => prop::sample::select(vec![1u16, 2, 3, 7]), 1 => prop::sample::select(vec![511u16, 512, 513, 1024])],
            prop_oneof![
                5 => Just(Fault::None),
                2 => (0u16..80).prop_map(Fault::Eof),
                1 => (0u16..80).prop_map(Fault::ReadErr),
                1 => (0u16..120).prop_map(Fault::WriteErr),
                1 => (0u16..120).prop_map(Fault::WriteZero),
            ],
        )
            .prop_map(|(phase, (bytes, label), chunk, fault)| Case { phase, label, bytes, chunk, fault })
            .boxed()
    }

    fn cases(tier: Tier) -> u32 {
        tier.pick(24_000, 500_000)
    }

    fn quick_profiles() -> &'static [&'static str] {
        &["checked", "release"]
    }

    fn exhaustive(tier: Tier, worker: usize, workers: usize) -> Box<dyn Iterator<Item = Case>> {
        // every packet type byte x remaining length 0..3 x small bodies, in every phase;
        // EOF at every offset of a few valid streams
        let mut v = vec![];
        let bodies: [&[u8]; 6] = [&[], &[0], &[0, 0], &[0, 1, 0], &[0, 1, 0x80], &[0, 1, 0, 0]];
        for ty in 0u8..16 {
            for flags in [0u8, 2] {
                for body in bodies {
                    let mut b = vec![(ty << 4) | flags, body.len() as u8];
                    b.extend_from_slice(body);
                    for phase in [Phase::Connect, Phase::Authorize, Phase::Run] {
                        v.push(Case { phase, label: "type-x-short-body".into(), bytes: b.clone(), chunk: 0, fault: Fault::None });
                    }
                }
            }
        }
        // packets whose remaining length needs 3 and 4 bytes (16 KiB .. 2 MiB + 1), whole and in
        // 64 KiB - 1 reads, followed by the serving probe
        for n in [16_384usize, 2_097_100, 2_097_152, 2_200_000] {
            for chunk in [0u16, 65_535] {
                v.push(Case { phase: Phase::Run, label: format!("huge-publish/{n}"), bytes: vec![], chunk, fault: Fault::None });
            }
        }
        let streams: Vec<Vec<u8>> = vec![
            rc::encode(&rc::Packet::Connack(rc::Connack { receive_maximum: Some(5), reason_string: Some("ok".into()), ..Default::default() }), &rc::Form::canonical()),
            {
                let mut s = rc::encode(&rc::Packet::Pingresp, &rc::Form::canonical());
                s.extend(rc::encode(&rc::Packet::Puback(rc::Ack { pid: 1, reason: 0x10, reason_string: Some("r".into()), ..Default::default() }), &rc::Form::canonical()));
                s.extend(rc::encode(&rc::Packet::Publish(rc::Publish { qos: 1, topic: "a".into(), pid: Some(3), subscription_ids: vec![1], payload: vec![1, 2, 3], ..Default::default() }), &rc::Form::canonical()));
                s
            },
        ];
        let max_w = tier.pick(120usize, 200);
        for s in &streams {
            for k in 0..=s.len() {
                for phase in [Phase::Connect, Phase::Run] {
                    v.push(Case { phase, label: "eof-at-every-offset".into(), bytes: s.clone(), chunk: 0, fault: Fault::Eof(k as u16) });
                    v.push(Case { phase, label: "read-error-at-every-offset".into(), bytes: s.clone(), chunk: 1, fault: Fault::ReadErr(k as u16) });
                }
            }
            for k in 0..max_w {
                v.push(Case { phase: Phase::Run, label: "write-error-at-every-offset".into(), bytes: s.clone(), chunk: 0, fault: Fault::WriteErr(k as u16) });
                v.push(Case { phase: Phase::Run, label: "write-zero-at-every-offset".into(), bytes: s.clone(), chunk: 0, fault: Fault::WriteZero(k as u16) });
                v.push(Case { phase: Phase::Authorize, label: "write-error-at-every-offset".into(), bytes: s.clone(), chunk: 0, fault: Fault::WriteErr(k as u16) });
            }
        }
        // every truncation offset of rich valid packets of every type, with and without the
        // remaining length fixed up, in every phase
        let up = vec![("k".to_string(), "v".to_string())];
        let rich: Vec<rc::Packet> = vec![
            rc::Packet::Connack(rc::Connack {
                session_expiry: Some(9), receive_maximum: Some(3), maximum_qos: Some(1), retain_available: Some(true),
                maximum_packet_size: Some(1000), assigned_client_id: Some("id".into()), topic_alias_maximum: Some(4),
                reason_string: Some("rs".into()), user_props: up.clone(), wildcard_available: Some(true),
                sub_ids_available: Some(true), shared_available: Some(false), server_keep_alive: Some(7),
                response_information: Some("ri".into()), server_reference: Some("sr".into()),
                auth_method: Some("m".into()), auth_data: Some(vec![1, 2]), ..Default::default()
            }),
            rc::Packet::Auth(rc::Auth { reason: 0x18, method: Some("m".into()), data: Some(vec![1, 2, 3]), reason_string: Some("r".into()), user_props: up.clone() }),
            rc::Packet::Publish(rc::Publish {
                dup: true, qos: 2, retain: true, topic: "a/b".into(), pid: Some(9), payload_format: Some(true),
                message_expiry: Some(5), topic_alias: Some(2), response_topic: Some("r".into()),
                correlation_data: Some(vec![7, 8]), user_props: up.clone(), subscription_ids: vec![1, 200],
                content_type: Some("c".into()), payload: vec![1, 2, 3],
            }),
            rc::Packet::Puback(rc::Ack { pid: 2, reason: 0x10, reason_string: Some("x".into()), user_props: up.clone() }),
            rc::Packet::Pubrec(rc::Ack { pid: 3, reason: 0x80, reason_string: Some("x".into()), user_props: up.clone() }),
            rc::Packet::Pubrel(rc::Ack { pid: 4, reason: 0x92, reason_string: Some("x".into()), user_props: up.clone() }),
            rc::Packet::Pubcomp(rc::Ack { pid: 3, reason: 0, reason_string: Some("x".into()), user_props: up.clone() }),
            rc::Packet::Suback(rc::AckList { pid: 1, reason_string: Some("s".into()), user_props: up.clone(), reasons: vec![0, 1, 0x80] }),
            rc::Packet::Unsuback(rc::AckList { pid: 1, reason_string: Some("s".into()), user_props: up.clone(), reasons: vec![0, 0x11] }),
            rc::Packet::Disconnect(rc::Disconnect { reason: 0x8b, session_expiry: None, reason_string: Some("bye".into()), server_reference: Some("srv".into()), user_props: up.clone() }),
        ];
        for pkt in &rich {
            let b = rc::encode(pkt, &rc::Form::canonical());
            let name = pkt.name().to_lowercase();
            for k in 1..b.len() {
                let mut fixed = b[..k].to_vec();
                if k >= 2 {
                    fixed[1] = (k - 2) as u8; // all rich packets have a one-byte remaining length
                }
                for phase in [Phase::Connect, Phase::Authorize, Phase::Run] {
                    v.push(Case { phase, label: format!("truncate:{name}"), bytes: b[..k].to_vec(), chunk: 0, fault: Fault::Eof(k as u16) });
                    v.push(Case { phase, label: format!("truncate+fix-rl:{name}"), bytes: fixed.clone(), chunk: if k % 2 == 0 { 0 } else { 1 }, fault: Fault::None });
                }
            }
        }
        // well-formed PUBLISH packets naming every pair and triple of subscription identifiers
        // out of {alive, dead (stream dropped), alive and last registered, never registered}
        let ids = [1u32, 2, 3, 9];
        let mut lists: Vec<Vec<u32>> = vec![];
        for a in ids {
            for b in ids {
                lists.push(vec![a, b]);
                for c in ids {
                    lists.push(vec![a, b, c]);
                }
            }
        }
        for (i, l) in lists.into_iter().enumerate() {
            let qos = (i % 3) as u8;
            let b = rc::encode(
                &rc::Packet::Publish(rc::Publish { qos, pid: (qos > 0).then_some(40 + i as u16), topic: "multi".into(), payload: vec![1], subscription_ids: l, ..Default::default() }),
                &rc::Form::canonical(),
            );
            v.push(Case { phase: Phase::Run, label: "publish-naming-several-subscriptions".into(), bytes: b, chunk: 0, fault: Fault::None });
        }
        // every ordered pair and triple of well-formed packets that address what the prologue left
        // outstanding (subscriptions 1 alive, 2 dead, 3 alive, 4 abandoned before its SUBACK = packet
        // identifier 6; publishes 4 and 5; a ping), in one read
        let palette: Vec<rc::Packet> = {
            let mut p: Vec<rc::Packet> = [1u32, 2, 3, 4, 9]
                .iter()
                .map(|sid| rc::Packet::Publish(rc::Publish { qos: 0, topic: "addr".into(), payload: vec![*sid as u8], subscription_ids: vec![*sid], ..Default::default() }))
                .collect();
            p.push(rc::Packet::Publish(rc::Publish { qos: 1, pid: Some(77), topic: "addr".into(), payload: vec![7], subscription_ids: vec![4, 2], ..Default::default() }));
            p.push(rc::Packet::Suback(rc::AckList { pid: 6, reasons: vec![0], ..Default::default() }));
            p.push(rc::Packet::Suback(rc::AckList { pid: 6, reasons: vec![0x80], ..Default::default() }));
            p.push(rc::Packet::Suback(rc::AckList { pid: 1, reasons: vec![0], ..Default::default() }));
            p.push(rc::Packet::Puback(rc::Ack { pid: 4, ..Default::default() }));
            p.push(rc::Packet::Pubrec(rc::Ack { pid: 5, ..Default::default() }));
            p.push(rc::Packet::Pubcomp(rc::Ack { pid: 5, ..Default::default() }));
            p.push(rc::Packet::Pingresp);
            p
        };
        let enc: Vec<Vec<u8>> = palette.iter().map(|p| rc::encode(p, &rc::Form::canonical())).collect();
        for a in &enc {
            for b in &enc {
                v.push(Case { phase: Phase::Run, label: "pair-addressing-outstanding-state".into(), bytes: [a.clone(), b.clone()].concat(), chunk: 0, fault: Fault::None });
                for c in &enc {
                    v.push(Case { phase: Phase::Run, label: "triple-addressing-outstanding-state".into(), bytes: [a.clone(), b.clone(), c.clone()].concat(), chunk: if (a.len() + c.len()) % 2 == 0 { 0 } else { 3 }, fault: Fault::None });
                }
            }
        }
        // every property of every rich packet moved to the END of the property block in turn, and
        // the two-byte value at each of the last 14 offsets raised by 1 and by 2: a string / binary
        // length that overshoots what is there, with nothing behind it
        for pkt in &rich {
            let name = pkt.name().to_lowercase();
            for last in 0..18usize {
                let mut order = vec![0u8; 24];
                order[last] = 1;
                let b = rc::encode(pkt, &rc::Form { order, short: false });
                for back in 0..14usize {
                    if b.len() < 4 + back {
                        continue;
                    }
                    let p = b.len() - 2 - back;
                    if p < 2 {
                        continue;
                    }
                    for d in [1u16, 2] {
                        let mut m = b.clone();
                        let raised = u16::from_be_bytes([m[p], m[p + 1]]).wrapping_add(d);
                        m[p..p + 2].copy_from_slice(&raised.to_be_bytes());
                        let phase = match pkt {
                            rc::Packet::Connack(_) => Phase::Connect,
                            rc::Packet::Auth(_) => Phase::Authorize,
                            _ => Phase::Run,
                        };
                        v.push(Case { phase, label: format!("length-prefix+{d}:{name}"), bytes: m, chunk: 0, fault: Fault::None });
                    }
                }
            }
        }
        Box::new(v.into_iter().enumerate().filter(move |(i, _)| i % workers == worker).map(|(_, c)| c))
    }

    fn assumptions() -> Vec<String> {
        vec![
            "which Ok/Err a call returns is C13's business; here any return value is accepted".into(),
            "tolerated: the panic whose message is the documented 'Subscription identifier support is required' assertion".into(),
            "a packet whose remaining length announces more bytes than delivered legitimately keeps the call waiting until the transport ends".into(),
        ]
    }

    fn run(case: &Case) -> Outcome {
        let mut out = Outcome::ok();
        out.class(format!("phase-{:?}", case.phase).to_lowercase());
        let mlabel = case.label.split(':').next().unwrap_or("").split('+').next().unwrap_or("").to_string();
        out.class(format!("input-{mlabel}"));
        match case.fault {
            Fault::None => {}
            Fault::Eof(_) => out.class("fault-eof"),
            Fault::ReadErr(_) => out.class("fault-read-error"),
            Fault::WriteErr(_) => out.class("fault-write-error"),
            Fault::WriteZero(_) => out.class("fault-write-zero"),
        }
        let wellformed_expected = case.fault == Fault::None
            && mlabel == "valid-packet-any-phase"
            && !case.label.contains('+')
            && matches!(
                (case.phase, case.bytes.first().map(|b| b >> 4)),
                (Phase::Connect | Phase::Authorize, Some(2 | 15)) | (Phase::Run, Some(3 | 4 | 5 | 6 | 7 | 9 | 11 | 13 | 14))
            );
        out.nontrivial = !wellformed_expected;
        out.fail = run_bytes(case, &mut out);
        if out.fail.is_none() {
            let h = crate::driver::case_hash(case);
            out.fail = acks_for_exchanges_of_an_earlier_connection((h % 4) as u8, (h / 4 % 6) as u8);
            out.class("acknowledgements-for-exchanges-of-an-earlier-connection");
        }
        out
    }
}

/// The Context served an earlier connection that ended with a QoS 1 publish unacknowledged and a
/// QoS 2 publish between its phases; it is set up and connected again (no hook, so nothing is
/// resumed) and the new server acknowledges those old identifiers, unknown ones, and the same one
/// twice, in some order. No packet order can panic or end run() with anything but an error.
fn acks_for_exchanges_of_an_earlier_connection(receive_max: u8, order: u8) -> Option<Failure> {
    use crate::world::World;
    let plan = WritePlan::default();
    let mut w = World::new();
    if connect_and_run(&mut w, ConnectSpec::default(), &default_connack(), &plan).is_err() {
        return None;
    }
    let mut tr = Tracker::new();
    tr.skip_existing(&mut w);
    let a = w.start_op(0, OpSpec::Publish(tagged_publish(1, 1)))?;
    let b = w.start_op(0, OpSpec::Publish(tagged_publish(2, 2)))?;
    settle(&mut w, &plan, false);
    tr.update(&mut w);
    let (pa, pb) = (tr.pid(a)?, tr.pid(b)?);
    feed_packet(&mut w, &rc::Packet::Pubrec(rc::Ack { pid: pb, ..Default::default() }), &rc::Form::short());
    settle(&mut w, &plan, false);
    w.tick();
    w.reader.set_eof();
    settle(&mut w, &plan, false);
    if w.run_result.is_none() || !w.set_up_again() {
        return None;
    }
    let connack = rc::Connack { receive_maximum: [None, Some(65_535u16), Some(1), Some(2)][receive_max as usize % 4], ..Default::default() };
    if connect_and_run(&mut w, ConnectSpec::default(), &connack, &plan).is_err() {
        return None;
    }
    let acks = [
        rc::Packet::Puback(rc::Ack { pid: pa, ..Default::default() }),
        rc::Packet::Pubcomp(rc::Ack { pid: pb, ..Default::default() }),
        rc::Packet::Puback(rc::Ack { pid: pa, ..Default::default() }),
        rc::Packet::Pubrec(rc::Ack { pid: pb, ..Default::default() }),
        rc::Packet::Puback(rc::Ack { pid: 999, ..Default::default() }),
        rc::Packet::Pubcomp(rc::Ack { pid: 999, ..Default::default() }),
    ];
    for i in 0..acks.len() {
        let k = (i + order as usize) % acks.len();
        feed_packet(&mut w, &acks[if order % 2 == 0 { k } else { acks.len() - 1 - k }], &rc::Form::short());
        settle(&mut w, &plan, false);
    }
    // and a publish of the new connection still goes through the motions
    let c = w.start_op(0, OpSpec::Publish(tagged_publish(3, 1)));
    settle(&mut w, &plan, false);
    let _ = c;
    for (who, m) in &w.panics {
        if !tolerated_panic(m) {
            return Some(Failure {
                sig: format!("C04/panic/{}", panic_sig(m)),
                msg: format!("panic in {who} when the new server acknowledged exchanges of the earlier connection (Receive Maximum variant {receive_max}, order {order}): {m}"),
            });
        }
    }
    None
}
