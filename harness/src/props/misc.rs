//! C11 (packet identifiers), C12 (Maximum Packet Size), C17 (session resume).

use super::common::*;
use crate::api::*;
use crate::driver::*;
use crate::gen;
use crate::refcodec as rc;
use crate::world::*;
use proptest::collection::vec;
use proptest::prelude::*;
use serde::{Deserialize, Serialize};
use std::collections::{BTreeMap, BTreeSet};

// =====================================================================================
// C11

#[derive(Clone, Debug, Serialize, Deserialize)]
pub struct C11Case {
    /// number of identifier-consuming operations
    pub total: u32,
    pub handles: u8,
    pub salt: u32,
    /// (position, how many allocations it stays outstanding) — delay < 65000
    pub keep: Vec<(u32, u16)>,
    /// run the operations from 4 OS threads (each on its own clone, 8 operations in flight
    /// per thread) while this thread runs the context: real concurrency on the shared
    /// counters. The schedule is not owned; the oracle does not depend on it.
    #[serde(default)]
    pub threads: bool,
    /// instead of the long history: a short fine-grained schedule (several handle clones, requests
    /// refused for quota or size, futures polled late, cancellations), judged by the session
    /// model's identifier invariant
    #[serde(default)]
    pub history: Option<crate::sim::Scenario>,
    /// after the long history: the connection is lost with whatever is still outstanding, the
    /// session is resumed through the hook, and more identifiers are allocated (the kept operations
    /// are then QoS 1 publishes, which a resumed session re-sends)
    #[serde(default)]
    pub resume_after: bool,
    /// the first request on handle 0 fails local validation (publish without a topic); handle 0
    /// then stays quiet while the other clones take the counter once round, and speaks up again at
    /// the end
    #[serde(default)]
    pub invalid_first: bool,
    /// instead of the long history: three live subscriptions, then the subscription identifier
    /// counter is moved here through the hook (as if that many subscribe() calls had been made)
    /// and eight more subscribes follow from alternating clones, some left unacknowledged
    #[serde(default)]
    pub sub_counter: Option<u32>,
}

/// Largest value a Subscription Identifier can take (variable byte integer).
const SUB_ID_MAX: u64 = 268_435_455;
/// Two subscribe() calls fewer than this many calls apart must get different identifiers. The
/// identifier space has 2^28 - 1 values, so "its own identifier" cannot hold for ever; how much of
/// the space an allocation policy must use before it comes round is not stated, so only a
/// collision within an eighth of it is reported (a counter stepping by 3 passes, one folded
/// into the three-byte identifiers does not).
const SUB_ID_WINDOW: u64 = 1 << 25;

/// The far end of the subscription identifier space, reached through the hook.
fn run_c11_sub_ids(start: u32, salt: u32) -> Outcome {
    let mut o = Outcome::ok();
    o.class("subscription-identifier-space");
    o.nontrivial = true;
    let plan = WritePlan::default();
    let mut w = World::new();
    if connect_and_run(&mut w, ConnectSpec::default(), &default_connack(), &plan).is_err() {
        o.fail = Some(Failure { sig: "HARNESS/prologue".into(), msg: format!("{:?}", w.panics) });
        return o;
    }
    w.clone_handle(0);
    let mut tr = Tracker::new();
    tr.skip_existing(&mut w);
    // (virtual allocation index, op)
    let mut allocs: Vec<(u64, usize)> = vec![];
    let mut sub = |w: &mut World, tr: &mut Tracker, h: usize, tag: usize, ack: bool, index: u64, o: &mut Outcome| -> bool {
        w.tick();
        let Some(op) = w.start_op(h, OpSpec::Subscribe(tagged_subscribe(tag, 1))) else {
            return false;
        };
        settle(w, &plan, true);
        if let Some((who, m)) = w.panics.first() {
            o.fail = Some(Failure {
                sig: "C11/allocation-panicked/subscription-identifier".into(),
                msg: format!("subscribe() number {index} on this client (counter moved through the hook) panicked in {who}: {m}"),
            });
            return false;
        }
        tr.update(w);
        allocs.push((index, op));
        if ack {
            if let Some(pid) = tr.pid(op) {
                feed_packet(w, &rc::Packet::Suback(rc::AckList { pid, reasons: vec![0], ..Default::default() }), &rc::Form::canonical());
                settle(w, &plan, true);
                w.make_stream(op);
            }
        }
        true
    };
    for k in 0..3usize {
        if !sub(&mut w, &mut tr, k % 2, k, true, 1 + k as u64, &mut o) {
            return o;
        }
    }
    if !w.set_next_sub_id(start) {
        o.fail = Some(Failure { sig: "HARNESS/no-handle".into(), msg: String::new() });
        return o;
    }
    for j in 0..8usize {
        let ack = (salt >> j) & 1 == 0;
        if !sub(&mut w, &mut tr, (j + salt as usize) % 2, 10 + j, ack, start as u64 + j as u64, &mut o) {
            return o;
        }
    }
    drop(sub);
    // the wire: every SUBSCRIBE decodes (identifier a non-zero variable byte integer), and the
    // identifiers of calls less than SUB_ID_WINDOW calls apart differ
    w.sync_wire();
    if let Some(bad) = w.pkts.iter().find(|p| p.decoded.is_err()) {
        o.fail = Some(Failure { sig: "C11/subscription-identifier-invalid-on-the-wire".into(), msg: format!("a packet starting {:#04x} written after the counter was moved to {start} does not decode: {:?}", bad.first, bad.decoded) });
        return o;
    }
    let ids: Vec<(u64, Option<u32>)> = allocs.iter().map(|(i, op)| (*i, tr.sub_id(*op))).collect();
    for (i, id) in &ids {
        match id {
            None => {
                o.fail = Some(Failure { sig: "C11/subscribe-not-written".into(), msg: format!("subscribe() number {i}: no SUBSCRIBE with a subscription identifier on the wire; identifiers {ids:?}") });
                return o;
            }
            Some(0) => {
                o.fail = Some(Failure { sig: "C11/subscription-identifier-zero".into(), msg: format!("subscribe() number {i}; identifiers {ids:?}") });
                return o;
            }
            Some(v) if *v as u64 > SUB_ID_MAX => {
                o.fail = Some(Failure { sig: "C11/subscription-identifier-invalid-on-the-wire".into(), msg: format!("subscribe() number {i} got {v}; identifiers {ids:?}") });
                return o;
            }
            _ => {}
        }
    }
    for (a, (ia, ida)) in ids.iter().enumerate() {
        for (ib, idb) in ids.iter().skip(a + 1) {
            if ida == idb && ib.abs_diff(*ia) < SUB_ID_WINDOW {
                o.fail = Some(Failure {
                    sig: "C11/subscription-identifier-not-unique".into(),
                    msg: format!("subscribe() calls number {ia} and {ib} on one client both got subscription identifier {ida:?} (counter moved to {start} through the hook after three subscribes); all: {ids:?}"),
                });
                return o;
            }
        }
    }
    o
}

pub struct C11;

fn kind_at(salt: u32, i: u32) -> u8 {
    let mut x = salt.wrapping_add(i.wrapping_mul(0x9e37_79b9));
    x ^= x >> 15;
    x = x.wrapping_mul(0x2c1b_3c6d);
    x ^= x >> 12;
    (x % 10) as u8
}

impl Property for C11 {
    const ID: &'static str = "C11";
    const RULE: &'static str = "one client, 66 000 - 140 000 identifier-consuming operations (QoS 1/2 publish, subscribe, unsubscribe mixed by a salted hash, issued round-robin from 1-4 handle clones), each acknowledged at once except a generated set of 0-40 operations kept outstanding for a generated number (< 65000) of further allocations, placed so that some are outstanding across the 65535 boundary; every identifier read off the strictly decoded wire must be non-zero and differ from those of all operations not yet finally acknowledged, every subscription identifier must be new, no allocation may panic. Non-trivial = the history crosses the 65535 boundary with >= 1 operation outstanding";
    type Case = C11Case;

    fn strategy(tier: Tier) -> BoxedStrategy<C11Case> {
        let s = (
            tier.pick(66_000u32..70_000, 66_000u32..140_000),
            1u8..5,
            any::<u32>(),
            vec(
                (
                    prop_oneof![2 => 60_000u32..65_540, 1 => 0u32..140_000, 1 => 65_500u32..65_540],
                    prop_oneof![1 => 1u16..200, 1 => 1u16..64_000],
                ),
                0..40,
            ),
        )
            .prop_map(|(total, handles, salt, keep)| C11Case { total, handles, salt, keep, threads: false, history: None, resume_after: false, invalid_first: false, sub_counter: None })
            .boxed();
        let long = (s, prop::bool::weighted(0.25), any::<bool>())
            .prop_map(|(mut c, t, r)| {
                c.threads = t;
                c.resume_after = r && !t;
                c
            })
            .boxed();
        // fine-grained schedules: identifiers are allocated at the first poll of an operation's
        // future, refusals are seen at a later poll, other clones allocate in between
        use super::simprops::{ack, deco, rm_small, sel, start};
        use crate::sim::{Ev, OpKind, Scenario};
        let ev = prop_oneof![
            6 => start(vec![(3, OpKind::Pub1), (3, OpKind::Pub2), (2, OpKind::Sub(0)), (2, OpKind::Unsub(0)), (1, OpKind::Pub0), (1, OpKind::Ping)]),
            1 => Just(Ev::CloneHandle),
            5 => Just(Ev::PollCtx),
            6 => sel().prop_map(|sel| Ev::PollOp { sel }),
            4 => ack(deco()),
            1 => sel().prop_map(|sel| Ev::DropOp { sel }),
            1 => Just(Ev::Settle),
        ];
        let hist = (
            rm_small(),
            prop_oneof![3 => Just(None), 1 => (18u32..42).prop_map(Some)],
            proptest::collection::vec(ev, 1..tier.pick(60, 150)),
            prop_oneof![6 => Just(0u32), 2 => 250u32..300, 1 => prop::sample::select(vec![65_280u32, 65_500, 65_530])],
            prologue_variant_no_inbound(),
        )
            .prop_map(|(receive_max, max_packet_size, mut events, id_offset, prologue): (Option<u16>, Option<u32>, Vec<Ev>, u32, u8)| {
                // several clones from the outset
                events.insert(0, Ev::CloneHandle);
                events.insert(0, Ev::CloneHandle);
                C11Case { total: 0, handles: 0, salt: 0, keep: vec![], threads: false, resume_after: false, invalid_first: false, sub_counter: None, history: Some(Scenario { receive_max, max_packet_size, id_offset, prologue, events }) }
            });
        prop_oneof![1 => long, 400 => hist].boxed()
    }

    fn cases(tier: Tier) -> u32 {
        // about 1 in 400 cases is a long history (66 000 - 140 000 operations)
        tier.pick(6400, 80_000)
    }

    /// a history that ends just past the wrap with publishes outstanding on both sides of it, and
    /// is then resumed on a new connection
    fn exhaustive(_tier: Tier, worker: usize, _workers: usize) -> Box<dyn Iterator<Item = C11Case>> {
        let mut v = vec![];
        if worker == 0 {
            for (total, handles) in [(65_540u32, 1u8), (65_560, 3)] {
                v.push(C11Case {
                    total,
                    handles,
                    salt: 7,
                    keep: vec![(65_500, 60_000), (65_531, 60_000), (65_536, 60_000), (65_537, 60_000)],
                    threads: false,
                    history: None,
                    resume_after: true,
                    invalid_first: false,
                    sub_counter: None,
                });
            }
        }
        if worker == 1 % _workers.max(1) {
            // handle 0 fails validation first (identifier 1 taken from the counter), handle 1 makes
            // 65 535 allocations; the one that comes round to identifier 1 stays outstanding
            v.push(C11Case { total: 65_538, handles: 2, salt: 3, keep: vec![(65_534, 60_000), (65_535, 60_000)], threads: false, history: None, resume_after: false, invalid_first: true, sub_counter: None });
        }
        // forty operations of every kind (about a third of them subscribes / unsubscribes) stay
        // outstanding for half a lap of the identifier counter and a little more
        if worker == 2 % _workers.max(1) {
            v.push(C11Case { total: 33_000, handles: 2, salt: 11, keep: (0..40u32).map(|i| (i, 32_850u16)).collect(), threads: false, history: None, resume_after: false, invalid_first: false, sub_counter: None });
        }
        // the far end of the subscription identifier space (and its encoding boundaries on the way)
        let starts = [
            125u32, 16_381, 65_533, 2_097_149, 2_097_150, 4_194_301, 16_777_213, 134_217_725, 268_435_449, 268_435_452, 268_435_453, 268_435_454, 268_435_455,
        ];
        for (k, start) in starts.into_iter().enumerate() {
            for salt in [0u32, 0x55, 0xff] {
                if (k + salt as usize) % _workers.max(1) == worker {
                    v.push(C11Case { total: 0, handles: 2, salt, keep: vec![], threads: false, history: None, resume_after: false, invalid_first: false, sub_counter: Some(start) });
                }
            }
        }
        Box::new(v.into_iter())
    }

    fn max_shrink_iters() -> u32 {
        24
    }

    fn assumptions() -> Vec<String> {
        vec![
            "the property's proviso holds by construction: every kept operation is acknowledged before 65000 further identifiers are allocated".into(),
            "single task; the multi-thread clause is not decided (schedule not owned)".into(),
            "subscription identifiers: the space has 2^28 - 1 values, so two subscribe() calls are required to get different identifiers only when fewer than 2^25 calls apart (the hook moves the counter as if that many calls had been made)".into(),
        ]
    }

    fn run(case: &C11Case) -> Outcome {
        if let Some(h) = &case.history {
            let pressure = case_hash(case) % 4 == 0;
            let cfg = crate::sim::SimCfg {
                auto_settle: false,
                write: if pressure { WritePlan { per_call: 2, stall: Some(3) } } else { WritePlan::default() },
                ..Default::default()
            };
            let out = crate::sim::run(h, &cfg);
            let mut o = Outcome::ok();
            o.class("fine-grained-schedule");
            let refused = out.stats.quota_exhausted + out.stats.refused_for_size;
            if refused > 0 {
                o.class("schedule-with-refused-requests");
            }
            o.nontrivial = out.stats.max_outstanding_ops >= 2 && refused >= 1;
            o.fail = super::simprops::failure_for(&out, &["C11/"]);
            return o;
        }
        if let Some(start) = case.sub_counter {
            return run_c11_sub_ids(start, case.salt);
        }
        if case.threads {
            return run_c11_threads(case);
        }
        let mut o = Outcome::ok();
        let plan = WritePlan::default();
        let mut w = World::new();
        w.poll_budget = 200_000_000; // long histories: hundreds of thousands of operations
        let spec11 = ConnectSpec { session_expiry: Some(u32::MAX), client_id: Some("c11".into()), ..Default::default() };
        if let Err(e) = connect_and_run(&mut w, spec11.clone(), &default_connack(), &plan) {
            return Outcome::fail("HARNESS/prologue", e);
        }
        for _ in 1..case.handles.max(1) {
            w.clone_handle(0);
        }
        w.sync_wire();
        let mut seen_pkts = w.pkts.len();
        let keep: BTreeMap<u32, u16> = case.keep.iter().copied().collect();
        // outstanding: pid -> (op index, kind, release position)
        let mut outstanding: BTreeMap<u16, (usize, u8)> = BTreeMap::new();
        let mut release_at: BTreeMap<u32, Vec<u16>> = BTreeMap::new();
        let mut sub_ids: BTreeSet<u32> = BTreeSet::new();
        let mut crossed_with_outstanding = false;
        let mut max_out = 0usize;
        let finish = |w: &mut World, pid: u16, kind: u8| {
            match kind {
                0 => w.reader.feed(rc::encode(&rc::Packet::Puback(rc::Ack { pid, ..Default::default() }), &rc::Form::short())),
                1 => {
                    w.reader.feed(rc::encode(&rc::Packet::Pubrec(rc::Ack { pid, ..Default::default() }), &rc::Form::short()));
                    w.quiesce(false);
                    w.reader.feed(rc::encode(&rc::Packet::Pubcomp(rc::Ack { pid, ..Default::default() }), &rc::Form::short()));
                }
                2 => w.reader.feed(rc::encode(&rc::Packet::Suback(rc::AckList { pid, reasons: vec![0], ..Default::default() }), &rc::Form::canonical())),
                _ => w.reader.feed(rc::encode(&rc::Packet::Unsuback(rc::AckList { pid, reasons: vec![0], ..Default::default() }), &rc::Form::canonical())),
            }
            w.quiesce(false);
        };
        if case.invalid_first {
            w.tick();
            if let Some(op) = w.start_op(0, OpSpec::Publish(PublishSpec { qos: Some(1), topic: None, ..Default::default() })) {
                w.quiesce(false);
                if !matches!(w.ops[op].res, Some(OpRes::Err(_))) {
                    return Outcome::fail("HARNESS/invalid-request-accepted", format!("{:?}", w.ops[op].res));
                }
            }
        }
        for i in 0..case.total {
            // releases due now
            if let Some(pids) = release_at.remove(&i) {
                for pid in pids {
                    if let Some((_, kind)) = outstanding.remove(&pid) {
                        finish(&mut w, pid, kind);
                    }
                }
            }
            let k = kind_at(case.salt, i);
            let kind: u8 = match k {
                _ if case.resume_after && keep.contains_key(&i) => 0,
                0..=3 => 0,
                4..=6 => 1,
                7..=8 => 2,
                _ => 3,
            };
            let spec = match kind {
                0 => OpSpec::Publish(PublishSpec { qos: Some(1), topic: Some("t".into()), ..Default::default() }),
                1 => OpSpec::Publish(PublishSpec { qos: Some(2), topic: Some("t".into()), ..Default::default() }),
                2 => OpSpec::Subscribe(SubscribeSpec { filters: vec![("f".into(), SubOptsSpec::default())], user_props: vec![] }),
                _ => OpSpec::Unsubscribe(UnsubscribeSpec { filters: vec!["f".into()], user_props: vec![] }),
            };
            w.tick();
            let nh = case.handles.max(1) as usize;
            let h = if case.invalid_first && nh > 1 { 1 + (i as usize) % (nh - 1) } else { (i as usize) % nh };
            let op = w.start_op(h, spec).unwrap();
            w.quiesce(false);
            if let Some((who, m)) = w.panics.first() {
                o.fail = Some(Failure {
                    sig: format!("C11/panic/{}", panic_sig(m)),
                    msg: format!("allocation #{} panicked in {who}: {m}", i + 1),
                });
                break;
            }
            w.sync_wire();
            let mut pid = None;
            for p in &w.pkts[seen_pkts..] {
                match &p.decoded {
                    Ok(rc::Packet::Publish(x)) => pid = x.pid,
                    Ok(rc::Packet::Subscribe(x)) => {
                        pid = Some(x.pid);
                        match x.sub_id {
                            Some(id) if sub_ids.insert(id) => {}
                            other => {
                                o.fail = Some(Failure {
                                    sig: "C11/subscription-identifier-not-fresh".into(),
                                    msg: format!("operation #{}: subscription identifier {other:?}", i + 1),
                                })
                            }
                        }
                    }
                    Ok(rc::Packet::Unsubscribe(x)) => pid = Some(x.pid),
                    Ok(rc::Packet::Pubrel(_)) => {}
                    Ok(other) => {
                        o.fail = Some(Failure { sig: "C11/unexpected-packet".into(), msg: format!("{other:?}") });
                    }
                    Err(e) => {
                        // packet identifier 0 is rejected by the strict decoder
                        let sig = if e.0.contains("packet identifier 0") { "C11/packet-identifier-zero" } else { "C11/malformed" };
                        o.fail = Some(Failure { sig: sig.into(), msg: format!("operation #{}: {}", i + 1, e.0) });
                    }
                }
            }
            seen_pkts = w.pkts.len();
            if o.fail.is_some() {
                break;
            }
            let Some(pid) = pid else {
                o.fail = Some(Failure {
                    sig: "C11/request-not-written".into(),
                    msg: format!("operation #{} ({:?}) wrote nothing; result {:?}", i + 1, w.ops[op].spec.kind(), w.ops[op].res),
                });
                break;
            };
            if pid == 0 {
                o.fail = Some(Failure { sig: "C11/packet-identifier-zero".into(), msg: format!("operation #{}", i + 1) });
                break;
            }
            if let Some((other, _)) = outstanding.get(&pid) {
                o.fail = Some(Failure {
                    sig: "C11/identifier-reused-while-outstanding".into(),
                    msg: format!("operation #{} got packet identifier {pid}, still in use by operation index {other}", i + 1),
                });
                break;
            }
            if i == 65_535 && !outstanding.is_empty() {
                crossed_with_outstanding = true;
            }
            match keep.get(&i) {
                Some(delay) => {
                    outstanding.insert(pid, (op, kind));
                    release_at.entry(i + 1 + *delay as u32).or_default().push(pid);
                    max_out = max_out.max(outstanding.len());
                }
                None => finish(&mut w, pid, kind),
            }
            if w.ops[op].res.is_none() && keep.get(&i).is_none() {
                // whether an acknowledged operation completes is C05's claim, not C11's
                o.excluded.push("operation acknowledged but still pending (not judged here)".into());
                break;
            }
        }
        if case.invalid_first && o.fail.is_none() && o.excluded.is_empty() {
            w.tick();
            if w.start_op(0, OpSpec::Publish(PublishSpec { qos: Some(1), topic: Some("t".into()), ..Default::default() })).is_some() {
                w.quiesce(false);
                w.sync_wire();
                let pid = w.pkts[seen_pkts..].iter().find_map(|p| match &p.decoded {
                    Ok(rc::Packet::Publish(x)) => x.pid,
                    _ => None,
                });
                seen_pkts = w.pkts.len();
                if let Some(pid) = pid {
                    if pid == 0 || outstanding.contains_key(&pid) {
                        o.fail = Some(Failure {
                            sig: if pid == 0 { "C11/packet-identifier-zero".into() } else { "C11/identifier-reused-while-outstanding".into() },
                            msg: format!("handle 0 (whose first request failed validation {} allocations ago) published with packet identifier {pid}, still in use by an outstanding operation", case.total),
                        });
                    }
                }
            }
            o.class("handle-quiet-for-a-lap-after-a-failed-validation");
        }
        let _ = seen_pkts;
        // the session, with what is still outstanding, is resumed on a new connection: the
        // identifiers allocated there must stay clear of the exchanges that were resumed
        if case.resume_after && o.fail.is_none() && o.excluded.is_empty() && !outstanding.is_empty() {
            o.class("resumed-after-the-long-history");
            w.tick();
            w.reader.set_eof();
            w.quiesce(false);
            if w.run_result.is_some() && w.mark_disconnected(0) && w.set_up_again() {
                let spec2 = ConnectSpec { clean_start: Some(false), ..spec11.clone() };
                if connect_and_run(&mut w, spec2, &rc::Connack { session_present: true, ..Default::default() }, &plan).is_ok() {
                    w.sync_wire();
                    let mut seen2 = w.pkts.len();
                    let mut fresh: BTreeSet<u16> = BTreeSet::new();
                    for j in 0..12u32 {
                        w.tick();
                        let spec = match j % 3 {
                            0 => OpSpec::Publish(PublishSpec { qos: Some(1), topic: Some("t".into()), ..Default::default() }),
                            1 => OpSpec::Publish(PublishSpec { qos: Some(2), topic: Some("t".into()), ..Default::default() }),
                            _ => OpSpec::Unsubscribe(UnsubscribeSpec { filters: vec!["f".into()], user_props: vec![] }),
                        };
                        let h = (j as usize) % (case.handles.max(1) as usize);
                        if w.start_op(h, spec).is_none() {
                            break;
                        }
                        w.quiesce(false);
                        if let Some((who, m)) = w.panics.first() {
                            o.fail = Some(Failure { sig: format!("C11/panic/{}", panic_sig(m)), msg: format!("allocation after the resumption panicked in {who}: {m}") });
                            break;
                        }
                        w.sync_wire();
                        let mut pid = None;
                        for p in &w.pkts[seen2..] {
                            match &p.decoded {
                                Ok(rc::Packet::Publish(x)) if !x.dup => pid = x.pid,
                                Ok(rc::Packet::Unsubscribe(x)) => pid = Some(x.pid),
                                _ => {}
                            }
                        }
                        seen2 = w.pkts.len();
                        let Some(pid) = pid else { break };
                        if pid == 0 {
                            o.fail = Some(Failure { sig: "C11/packet-identifier-zero".into(), msg: format!("allocation #{} after the resumption", j + 1) });
                            break;
                        }
                        if outstanding.contains_key(&pid) || !fresh.insert(pid) {
                            o.fail = Some(Failure {
                                sig: "C11/identifier-reused-while-outstanding".into(),
                                msg: format!(
                                    "after {} operations the session was resumed with {} exchanges outstanding (identifiers {:?}); allocation #{} on the new connection got packet identifier {pid}, which is still in use",
                                    case.total,
                                    outstanding.len(),
                                    outstanding.keys().take(8).collect::<Vec<_>>(),
                                    j + 1
                                ),
                            });
                            break;
                        }
                    }
                }
            }
        }
        o.nontrivial = case.total > 65_536 && crossed_with_outstanding;
        o.class(format!("handles-{}", case.handles));
        o.class(format!("max-outstanding-{}", (max_out / 10) * 10));
        if crossed_with_outstanding {
            o.class("outstanding-across-wrap");
        }
        o
    }
}

/// C11 with real threads: 4 OS threads issue the operations (8 in flight each) on their own
/// handle clones while this thread polls the context and plays the broker.
fn run_c11_threads(case: &C11Case) -> Outcome {
    use futures::future::join_all;
    use std::sync::atomic::{AtomicBool, Ordering};
    use std::sync::Arc;
    let mut o = Outcome::ok();
    o.class("multi-thread");
    let plan = WritePlan::default();
    let mut w = World::new();
    if let Err(e) = connect_and_run(&mut w, ConnectSpec::default(), &default_connack(), &plan) {
        return Outcome::fail("HARNESS/prologue", e);
    }
    w.sync_wire();
    let mut seen = w.pkts.len();
    const THREADS: u32 = 4;
    const INFLIGHT: u32 = 8;
    let per_thread = case.total / THREADS + 1;
    let stop = Arc::new(AtomicBool::new(false));
    let mut joins = vec![];
    for t in 0..THREADS {
        let h = w.handles[0].as_ref().unwrap().clone();
        let salt = case.salt.wrapping_add(t);
        let stop = stop.clone();
        joins.push(std::thread::spawn(move || -> Result<(), String> {
            let mut i = 0u32;
            while i < per_thread && !stop.load(Ordering::Relaxed) {
                let batch: Vec<_> = (0..INFLIGHT)
                    .map(|k| {
                        let mut h = h.clone();
                        let kind = kind_at(salt, i + k);
                        async move {
                            match kind {
                                0..=3 => h.publish(poster::PublishOpts::new().qos(poster::QoS::AtLeastOnce).topic_name("t")).await.map(|_| ()),
                                4..=6 => h.publish(poster::PublishOpts::new().qos(poster::QoS::ExactlyOnce).topic_name("t")).await.map(|_| ()),
                                7..=8 => h.subscribe(poster::SubscribeOpts::new().subscription("f", poster::SubscriptionOpts::new())).await.map(|_| ()),
                                _ => h.unsubscribe(poster::UnsubscribeOpts::new().topic_filter("f")).await.map(|_| ()),
                            }
                        }
                    })
                    .collect();
                let r = std::panic::catch_unwind(std::panic::AssertUnwindSafe(|| futures::executor::block_on(join_all(batch))));
                match r {
                    Ok(_) => {}
                    Err(p) => {
                        let msg = p.downcast_ref::<String>().cloned().or_else(|| p.downcast_ref::<&str>().map(|s| s.to_string())).unwrap_or_default();
                        return Err(msg);
                    }
                }
                i += INFLIGHT;
            }
            Ok(())
        }));
    }
    // broker + context on this thread
    let mut pending: std::collections::VecDeque<(u16, u8)> = Default::default(); // (pid, kind: 1 puback, 2 pubrec, 3 suback, 4 unsuback)
    let mut outstanding: BTreeSet<u16> = BTreeSet::new();
    let mut sub_ids: BTreeSet<u32> = BTreeSet::new();
    // QoS 2 identifiers whose PUBREC has been fed and whose PUBREL is awaited
    let mut qos2_inflight: BTreeSet<u16> = BTreeSet::new();
    let mut abandoned = false;
    let mut idle = 0u32;
    let mut allocations = 0u64;
    let mut max_out = 0usize;
    let ack = |w: &mut World, pid: u16, kind: u8| {
        let p = match kind {
            1 => rc::Packet::Puback(rc::Ack { pid, ..Default::default() }),
            2 => rc::Packet::Pubrec(rc::Ack { pid, ..Default::default() }),
            5 => rc::Packet::Pubcomp(rc::Ack { pid, ..Default::default() }),
            3 => rc::Packet::Suback(rc::AckList { pid, reasons: vec![0], ..Default::default() }),
            _ => rc::Packet::Unsuback(rc::AckList { pid, reasons: vec![0], ..Default::default() }),
        };
        w.reader.feed(rc::encode(&p, &rc::Form::canonical()));
    };
    loop {
        w.poll_ctx();
        if let Some((who, m)) = w.panics.first() {
            o.fail = Some(Failure { sig: format!("C11/panic/{}", panic_sig(m)), msg: format!("{who}: {m}") });
            break;
        }
        w.sync_wire();
        let new = w.pkts.len() - seen;
        for p in &w.pkts[seen..] {
            match &p.decoded {
                Ok(rc::Packet::Publish(x)) => {
                    let pid = x.pid.unwrap_or(0);
                    allocations += 1;
                    if pid == 0 || !outstanding.insert(pid) {
                        o.fail = Some(Failure { sig: if pid == 0 { "C11/packet-identifier-zero".into() } else { "C11/identifier-reused-while-outstanding".into() }, msg: format!("[4 threads] PUBLISH with packet identifier {pid} after {allocations} allocations; {} outstanding", outstanding.len()) });
                    }
                    pending.push_back((pid, if x.qos == 1 { 1 } else { 2 }));
                }
                Ok(rc::Packet::Subscribe(x)) => {
                    allocations += 1;
                    if !outstanding.insert(x.pid) {
                        o.fail = Some(Failure { sig: "C11/identifier-reused-while-outstanding".into(), msg: format!("[4 threads] SUBSCRIBE with packet identifier {} still in use", x.pid) });
                    }
                    match x.sub_id {
                        Some(id) if sub_ids.insert(id) => {}
                        other => o.fail = Some(Failure { sig: "C11/subscription-identifier-not-fresh".into(), msg: format!("[4 threads] subscription identifier {other:?}") }),
                    }
                    pending.push_back((x.pid, 3));
                }
                Ok(rc::Packet::Unsubscribe(x)) => {
                    allocations += 1;
                    if !outstanding.insert(x.pid) {
                        o.fail = Some(Failure { sig: "C11/identifier-reused-while-outstanding".into(), msg: format!("[4 threads] UNSUBSCRIBE with packet identifier {} still in use", x.pid) });
                    }
                    pending.push_back((x.pid, 4));
                }
                Ok(rc::Packet::Pubrel(a)) => {
                    // only the PUBREL of an exchange in flight is answered; a stray one is not
                    // this property's business
                    if qos2_inflight.remove(&a.pid) {
                        pending.push_back((a.pid, 5));
                    }
                }
                Ok(_) => {}
                Err(e) => {
                    let sig = if e.0.contains("packet identifier 0") { "C11/packet-identifier-zero" } else { "C11/malformed" };
                    o.fail = Some(Failure { sig: sig.into(), msg: format!("[4 threads] {}", e.0) });
                }
            }
        }
        seen = w.pkts.len();
        max_out = max_out.max(outstanding.len());
        if o.fail.is_some() {
            break;
        }
        // acknowledge: keep up to 16 requests outstanding, release everything when idle
        idle = if new == 0 { idle + 1 } else { 0 };
        while pending.len() > 16 || (idle > 200 && !pending.is_empty()) {
            let (pid, kind) = pending.pop_front().unwrap();
            if kind != 2 {
                // a QoS 2 identifier stays in use until its PUBCOMP
                outstanding.remove(&pid);
            } else {
                qos2_inflight.insert(pid);
            }
            ack(&mut w, pid, kind);
            idle = 0;
        }
        if joins.iter().all(|j| j.is_finished()) && pending.is_empty() {
            break;
        }
        if idle > 100_000 {
            // a loaded machine may starve the worker threads for a while: wait, do not judge
            std::thread::sleep(std::time::Duration::from_millis(1));
        }
        if idle > 105_000 {
            // seconds without any progress (an operation that never completes is not this
            // property's business): abandon the case without a verdict
            abandoned = true;
            break;
        }
        std::thread::yield_now();
    }
    stop.store(true, Ordering::Relaxed);
    // let blocked workers finish: acknowledge whatever is still pending, then drop the context
    while let Some((pid, kind)) = pending.pop_front() {
        ack(&mut w, pid, kind);
    }
    w.poll_ctx();
    w.drop_ctx();
    for j in joins {
        match j.join() {
            Ok(Ok(())) => {}
            Ok(Err(m)) if o.fail.is_none() => {
                o.fail = Some(Failure { sig: format!("C11/panic/{}", panic_sig(&m)), msg: format!("[4 threads] an operation panicked on a worker thread: {m}") });
            }
            Err(_) if o.fail.is_none() => {
                o.fail = Some(Failure { sig: "C11/panic/worker-thread".into(), msg: "[4 threads] a worker thread panicked".into() });
            }
            _ => {}
        }
    }
    o.nontrivial = allocations > 65_536 && max_out >= 2 && !abandoned;
    o.class(format!("max-outstanding-{}", (max_out / 10) * 10));
    if abandoned {
        o.excluded.push("multi-thread variant abandoned without verdict: no progress (an operation did not complete)".into());
    }
    o
}

// =====================================================================================
// C12

#[derive(Clone, Copy, Debug, PartialEq, Eq, Serialize, Deserialize)]
pub enum MChoice {
    LMinus1,
    L,
    LPlus1,
    One,
    Max,
    Absent,
    /// half of L
    Half,
}

#[derive(Clone, Debug, Serialize, Deserialize)]
pub struct C12Case {
    pub op: OpSpec,
    pub m: MChoice,
    /// Maximum Packet Size the CLIENT announces in its CONNECT (limits what it receives,
    /// never what it sends)
    #[serde(default)]
    pub client_max: Option<u32>,
    /// instead of the single request: a whole history on a connection with a small Maximum
    /// Packet Size (requests of 10-40 bytes, some refused, some not) and a small Receive
    /// Maximum, judged by the reference session model
    #[serde(default)]
    pub history: Option<crate::sim::Scenario>,
    /// variation of the connection prologue (see `connect_and_run_v`)
    #[serde(default)]
    pub prologue: u8,
    /// the Context served an earlier connection whose CONNACK announced this Maximum Packet Size
    /// (0 = none announced); second component: 0 = the Context is simply set up again, 1 = the
    /// hook records the disconnection and the session has expired, 2 = recorded and still alive
    #[serde(default)]
    pub previous: Option<(u32, u8)>,
    /// before the request: a read error ends run(), and run() is called again on the same
    /// transport (the limit announced for this connection still holds)
    #[serde(default)]
    pub rerun_after_read_error: bool,
    /// (with `previous`) the request is issued, and its future polled once, between the two
    /// connections: it is the new connection's limit that decides
    #[serde(default)]
    pub issued_in_gap: bool,
}

pub struct C12;

fn c12_op() -> BoxedStrategy<OpSpec> {
    // spread the encoded length over 2 .. ~70000
    let pad = prop_oneof![
        4 => 0usize..120,
        3 => 100usize..1000,
        2 => 1000usize..20_000,
        1 => 60_000usize..65_000,
        1 => 66_000usize..72_000,
    ];
    (pad, 0u8..8, any::<u8>())
        .prop_map(|(pad, k, salt)| match k {
            0 | 1 | 2 => OpSpec::Publish(PublishSpec {
                qos: Some(k),
                topic: Some("c12/t".into()),
                payload: Some(gen::make_bytes(pad, salt)),
                user_props: if salt % 2 == 0 { vec![("k".into(), "v".into())] } else { vec![] },
                ..Default::default()
            }),
            3 | 4 => OpSpec::Subscribe(SubscribeSpec {
                filters: vec![(gen::make_string(pad.clamp(1, 60_000), 0, salt), SubOptsSpec::default())],
                user_props: vec![],
            }),
            5 => OpSpec::Unsubscribe(UnsubscribeSpec { filters: vec![gen::make_string(pad.clamp(1, 60_000), 0, salt)], user_props: vec![] }),
            6 => OpSpec::Ping,
            _ => OpSpec::Disconnect(DisconnectSpec {
                reason: Some(0),
                reason_string: if pad > 0 { Some(gen::make_string(pad.min(60_000), 0, salt)) } else { None },
                ..Default::default()
            }),
        })
        .boxed()
}

const C12_R: u16 = 2;

fn c12_world(m: Option<u32>, client_max: Option<u32>, prologue: u8, previous: Option<(u32, u8)>, rerun: bool, early: Option<&OpSpec>) -> Result<(World, Option<usize>), String> {
    let mut w = World::new();
    let connack = rc::Connack { maximum_packet_size: m, receive_maximum: Some(C12_R), ..Default::default() };
    let mut spec = ConnectSpec { maximum_packet_size: client_max, ..Default::default() };
    if let Some((m_prev, how)) = previous {
        // an earlier connection with another (or no) limit, lost by end-of-stream
        let plan = WritePlan::default();
        if how == 2 {
            spec.session_expiry = Some(u32::MAX);
        }
        let first = rc::Connack { maximum_packet_size: if m_prev == 0 { None } else { Some(m_prev) }, ..Default::default() };
        connect_and_run(&mut w, spec.clone(), &first, &plan)?;
        w.tick();
        w.reader.set_eof();
        settle(&mut w, &plan, false);
        if w.run_result.is_none() {
            return Err("earlier connection: run() did not return at end-of-stream".into());
        }
        if how > 0 && !w.mark_disconnected(5) {
            return Err("harness: context not available".into());
        }
        if !w.set_up_again() {
            return Err("harness: context not available".into());
        }
        spec.clean_start = Some(how != 2);
    }
    let mut early_idx = None;
    if let (Some(op), Some(_)) = (early, previous) {
        w.tick();
        if let Some(i) = w.start_op(0, op.clone()) {
            w.poll_op(i);
            early_idx = Some(i);
        }
    }
    connect_and_run_v(&mut w, spec, &connack, &WritePlan::default(), prologue)?;
    if rerun {
        let plan = WritePlan::default();
        w.tick();
        w.reader.set_err_once(std::io::ErrorKind::TimedOut);
        settle(&mut w, &plan, false);
        if w.run_result.is_none() {
            return Err("run() did not return on a read error".into());
        }
        w.tick();
        if !w.start_run() {
            return Err("harness: cannot start run() again".into());
        }
        settle(&mut w, &plan, false);
    }
    Ok((w, early_idx))
}

impl Property for C12 {
    const ID: &'static str = "C12";
    const RULE: &'static str = "request kinds (publish QoS 0/1/2, subscribe, unsubscribe, ping, disconnect) with option sets spreading the encoded length L over 2..~65000; L is measured on a connection without a maximum (bytes B, strictly decodable), then the same request is issued on fresh connections announcing M in {L-1, L, L+1, 1, 2^32-1, absent} with Receive Maximum 2. L > M: MaximumPacketSizeExceeded, zero bytes written, and a follow-up probe (exactly 2 further QoS 1 publishes accepted and the third refused for quota, a subscribe acknowledged, a ping answered) behaves as on a fresh connection; otherwise the wire equals B. Non-trivial = M in {L-1, L, L+1}";
    type Case = C12Case;

    fn strategy(_tier: Tier) -> BoxedStrategy<C12Case> {
        let s = (
            c12_op(),
            prop_oneof![
                3 => Just(MChoice::LMinus1),
                3 => Just(MChoice::L),
                2 => Just(MChoice::LPlus1),
                1 => Just(MChoice::One),
                1 => Just(MChoice::Max),
                1 => Just(MChoice::Absent),
            ],
        )
            .prop_map(|(op, m)| C12Case { op, m, client_max: None, history: None, prologue: 0, previous: None, rerun_after_read_error: false, issued_in_gap: false })
            .boxed();
        let single = (s, prop_oneof![2 => Just(None), 1 => (8u32..64).prop_map(Some), 1 => Just(Some(1u32))], prologue_variant())
            .prop_map(|(mut c, cm, pv)| {
                c.client_max = cm;
                c.prologue = pv & 63;
                c
            })
            .boxed();
        let single = (single, proptest::option::weighted(0.35, (prop_oneof![Just(0u32), Just(1u32), 5u32..40, Just(100_000u32)], 0u8..3)))
            .prop_map(|(mut c, p)| {
                c.previous = p;
                c
            })
            .boxed();
        let single = (single, prop::bool::weighted(0.2))
            .prop_map(|(mut c, r)| {
                c.rerun_after_read_error = r;
                c
            })
            .boxed();
        let single = (single, any::<bool>())
            .prop_map(|(mut c, g)| {
                c.issued_in_gap = g;
                c
            })
            .boxed();
        // histories: requests of every kind (multi-filter subscribes / unsubscribes are the long
        // ones), acknowledgements, cancellations; M between 12 and 44, R small
        use super::simprops::{ack, deco, rm_small, start};
        use crate::sim::{Ev, OpKind, Scenario};
        let ev = prop_oneof![
            8 => start(vec![(1, OpKind::Pub0), (2, OpKind::Pub1), (2, OpKind::Pub2), (4, OpKind::Sub(0)), (3, OpKind::Unsub(0)), (1, OpKind::Ping)]),
            5 => ack(deco()),
        ];
        let hist = (rm_small(), 12u32..44, proptest::collection::vec(ev, 1..40), prop_oneof![3 => Just(0u32), 1 => 250u32..300], prologue_variant_no_inbound())
            .prop_map(|(receive_max, m, events, id_offset, prologue): (Option<u16>, u32, Vec<Ev>, u32, u8)| C12Case {
                op: OpSpec::Ping,
                m: MChoice::Absent,
                client_max: None,
                prologue: 0,
                previous: None,
                rerun_after_read_error: false,
                issued_in_gap: false,
                history: Some(Scenario { receive_max, max_packet_size: Some(m), id_offset, prologue, events }),
            });
        prop_oneof![3 => single, 1 => hist].boxed()
    }

    fn cases(tier: Tier) -> u32 {
        tier.pick(20_000, 200_000)
    }

    /// publishes whose Remaining Length needs four bytes (2 MiB and more) against M in
    /// {L-1, L, L+1, L/2}
    fn exhaustive(_tier: Tier, worker: usize, workers: usize) -> Box<dyn Iterator<Item = C12Case>> {
        let mut v = vec![];
        let mut k = 0usize;
        for pad in [2_097_130usize, 2_097_152, 3_145_728] {
            for qos in [0u8, 1] {
                for m in [MChoice::LMinus1, MChoice::L, MChoice::LPlus1, MChoice::Half] {
                    k += 1;
                    if k % workers.max(1) != worker {
                        continue;
                    }
                    v.push(C12Case {
                        op: OpSpec::Publish(PublishSpec { qos: Some(qos), topic: Some("c12/large".into()), payload: Some(vec![0x5a; pad]), ..Default::default() }),
                        m,
                        client_max: None,
                        history: None,
                        prologue: 0,
                        previous: None,
                        rerun_after_read_error: false,
                        issued_in_gap: false,
                    });
                }
            }
        }
        Box::new(v.into_iter())
    }

    fn assumptions() -> Vec<String> {
        vec![
            "internal residue of a refused request (stale subscription entry, pending acknowledgement) is checked only through its observable consequences in the follow-up probe".into(),
            "the probe is skipped (and counted) when M < 64, where the probe's own packets would be refused".into(),
        ]
    }

    fn run(case: &C12Case) -> Outcome {
        let mut o = Outcome::ok();
        if let Some(h) = &case.history {
            let out = crate::sim::run(h, &crate::sim::SimCfg::default());
            o.class("history-under-small-maximum-packet-size");
            o.nontrivial = out.stats.refused_for_size >= 1 && out.stats.completions > out.stats.refused_for_size;
            // refusals must leave nothing behind: the quota verdicts and completions of the
            // rest of the history are part of the claim
            o.fail = super::simprops::failure_for(&out, &["C12/", "C10/", "C05/not-completed", "C05/completed-without-own-ack"]);
            return o;
        }
        let plan = WritePlan::default();
        // (1) measure L
        let mut a = match c12_world(None, None, 0, None, false, None).map(|x| x.0) {
            Ok(w) => w,
            Err(e) => return Outcome::fail("HARNESS/prologue", e),
        };
        let off = a.wire_len();
        a.tick();
        let opa = a.start_op(0, case.op.clone()).unwrap();
        settle(&mut a, &plan, false);
        let b: Vec<u8> = a.writer.data()[off..].to_vec();
        if let Err(e) = rc::decode_one(&b, rc::Dir::FromClient) {
            return Outcome::fail("C12/reference-wire-not-one-packet", format!("{}: {}", e.0, hex(&b)));
        }
        let l = b.len() as u64;
        let _ = opa;
        let m: Option<u32> = match case.m {
            MChoice::LMinus1 => Some((l - 1) as u32),
            MChoice::L => Some(l as u32),
            MChoice::LPlus1 => Some((l + 1) as u32),
            MChoice::One => Some(1),
            MChoice::Half => Some((l / 2) as u32),
            MChoice::Max => Some(u32::MAX),
            MChoice::Absent => None,
        };
        if m == Some(0) {
            return o; // not representable (L = 1 cannot happen)
        }
        o.nontrivial = matches!(case.m, MChoice::LMinus1 | MChoice::L | MChoice::LPlus1);
        o.class(format!("M-{:?}", case.m));
        if case.client_max.is_some() {
            o.class("client-announces-own-maximum");
        }
        o.class(case.op.kind());
        o.class(format!("L-{}", match l { 0..=127 => "<=127", 128..=16383 => "<=16383", _ => ">16383" }));
        // (2) the same request under M
        let early = (case.issued_in_gap && case.previous.is_some() && !case.rerun_after_read_error).then_some(&case.op);
        let (mut w, early_idx) = match c12_world(m, case.client_max, case.prologue & 63, case.previous, case.rerun_after_read_error, early) {
            Ok(w) => w,
            Err(e) => return Outcome::fail("HARNESS/prologue", e),
        };
        let (off, op) = match early_idx {
            Some(i) => {
                o.class("request-issued-between-two-connections");
                // it was served when run() started: everything behind the handshake packets
                w.sync_wire();
                let hs = w.pkts.iter().take_while(|p| matches!(&p.decoded, Ok(rc::Packet::Connect(_)) | Ok(rc::Packet::Auth(_)))).last().map(|p| p.end).unwrap_or(0);
                (hs, i)
            }
            None => {
                let off = w.wire_len();
                w.tick();
                (off, w.start_op(0, case.op.clone()).unwrap())
            }
        };
        settle(&mut w, &plan, false);
        if let Some(p) = first_panic(&w) {
            return Outcome { fail: Some(Failure { sig: format!("PANIC/{}", panic_sig(&p)), msg: p }), ..o };
        }
        let written: Vec<u8> = w.writer.data()[off..].to_vec();
        let too_large = m.map(|m| l > m as u64).unwrap_or(false);
        if too_large {
            o.class("refused");
            if w.ops[op].res != Some(OpRes::Err(ErrSum::MaximumPacketSizeExceeded)) {
                return Outcome {
                    fail: Some(Failure {
                        sig: format!("C12/oversized-not-refused/{}", case.op.kind()),
                        msg: format!("L = {l} > M = {m:?}: result {:?}, {} bytes written", w.ops[op].res, written.len()),
                    }),
                    ..o
                };
            }
            if !written.is_empty() {
                return Outcome {
                    fail: Some(Failure {
                        sig: format!("C12/refused-but-written/{}", case.op.kind()),
                        msg: format!("L = {l} > M = {m:?}: {} bytes written: {}", written.len(), hex(&written)),
                    }),
                    ..o
                };
            }
            // follow-up probe: nothing was left behind
            if m.unwrap() >= 64 {
                o.class("probe-run");
                if w.run_result.is_some() {
                    // run() ending on a refused request is C13's finding, not a residue
                    o.excluded.push("probe skipped: run() returned".into());
                } else if let Some(f) = probe(&mut w) {
                    return Outcome { fail: Some(f), ..o };
                }
            } else {
                o.excluded.push("probe skipped: M < 64".into());
            }
        } else {
            o.class("accepted");
            if written != b {
                let what = if written.is_empty() { "nothing-written" } else { "wire-differs" };
                return Outcome {
                    fail: Some(Failure {
                        sig: format!("C12/fitting-request-{what}/{}", case.op.kind()),
                        msg: format!("L = {l} <= M = {m:?}: result {:?}; wire {} vs reference {}", w.ops[op].res, hex(&written), hex(&b)),
                    }),
                    ..o
                };
            }
        }
        o
    }
}

/// After a refusal: exactly R further QoS 1 publishes are accepted, a subscribe and a
/// ping work, and no stray completion shows up.
fn probe(w: &mut World) -> Option<Failure> {
    let plan = WritePlan::default();
    let mut tr = Tracker::new();
    tr.skip_existing(w);
    let base = w.ops.len();
    let mut pubs = vec![];
    for k in 0..(C12_R as usize + 1) {
        w.tick();
        let i = w.start_op(0, OpSpec::Publish(tagged_publish(base + k, 1))).unwrap();
        settle(w, &plan, false);
        pubs.push(i);
    }
    tr.update(w);
    for (k, i) in pubs.iter().enumerate() {
        let on_wire = tr.on_wire(*i);
        let res = w.ops[*i].res.clone();
        if k < C12_R as usize {
            if !on_wire || res.is_some() {
                return Some(Failure {
                    sig: "C12/refusal-left-state-behind/quota".into(),
                    msg: format!("after the refused request, QoS 1 publish #{} of {C12_R} allowed: on wire {on_wire}, result {res:?}", k + 1),
                });
            }
        } else if res != Some(OpRes::Err(ErrSum::QuotaExceeded)) {
            return Some(Failure {
                sig: "C12/refusal-left-state-behind/quota".into(),
                msg: format!("publish #{} should exceed Receive Maximum {C12_R}: on wire {on_wire}, result {res:?}", k + 1),
            });
        }
    }
    // acknowledge them, then subscribe + ping
    for i in &pubs[..C12_R as usize] {
        let pid = tr.pid(*i).unwrap();
        feed_packet(w, &rc::Packet::Puback(rc::Ack { pid, ..Default::default() }), &rc::Form::short());
        settle(w, &plan, false);
        if w.ops[*i].res != Some(OpRes::Ok) {
            return Some(Failure { sig: "C12/refusal-left-state-behind/completion".into(), msg: format!("probe publish: {:?}", w.ops[*i].res) });
        }
    }
    w.tick();
    let s = w.start_op(0, OpSpec::Subscribe(tagged_subscribe(base + 10, 1))).unwrap();
    let p = w.start_op(0, OpSpec::Ping).unwrap();
    settle(w, &plan, false);
    tr.update(w);
    let Some(pid) = tr.pid(s) else {
        return Some(Failure { sig: "C12/refusal-left-state-behind/subscribe".into(), msg: format!("probe subscribe not written: {:?}", w.ops[s].res) });
    };
    feed_packet(w, &rc::Packet::Suback(rc::AckList { pid, reasons: vec![0], ..Default::default() }), &rc::Form::canonical());
    feed_packet(w, &rc::Packet::Pingresp, &rc::Form::canonical());
    settle(w, &plan, false);
    if !matches!(w.ops[s].res, Some(OpRes::SubOk { .. })) || w.ops[p].res != Some(OpRes::Ok) {
        return Some(Failure {
            sig: "C12/refusal-left-state-behind/subscribe-or-ping".into(),
            msg: format!("probe subscribe {:?}, ping {:?}, run {:?}", w.ops[s].res, w.ops[p].res, w.run_result),
        });
    }
    if w.run_result.is_some() {
        return Some(Failure { sig: "C12/run-returned".into(), msg: format!("{:?}", w.run_result) });
    }
    None
}

// =====================================================================================
// C17

#[derive(Clone, Copy, Debug, PartialEq, Eq, Serialize, Deserialize)]
pub enum Step {
    Pub1,
    Pub2,
    /// acknowledge the oldest / newest exchange that awaits something
    AckOldest,
    AckNewest,
    /// the caller gives up: the future of the oldest / newest unfinished publish is dropped
    /// (the exchange itself goes on)
    DropOldest,
    DropNewest,
    /// the oldest QoS 2 publish still waiting for its PUBREC gets it, only the context runs, and
    /// the caller drops the future without ever seeing the PUBREC: the PUBREL that is owed goes
    /// out all the same, and the exchange is in its second phase
    RecThenDropUnseen,
}

#[derive(Clone, Copy, Debug, PartialEq, Eq, Serialize, Deserialize)]
pub enum Expiry {
    Zero,
    Absent,
    Finite(u32),
    Never,
}

#[derive(Clone, Copy, Debug, PartialEq, Eq, Serialize, Deserialize)]
pub enum Ago {
    Now,
    HalfExpiry,
    LongAfterExpiry,
}

#[derive(Clone, Debug, Serialize, Deserialize)]
pub struct C17Case {
    pub history: Vec<Step>,
    pub expiry: Expiry,
    /// the CONNACKs repeat the interval (same value) or are silent about it
    pub connack_repeats: bool,
    pub ago: Ago,
    /// a new QoS 1 publish is issued while the client is disconnected (its request waits in
    /// the queue): the retransmissions must be written before it
    #[serde(default)]
    pub queued_during_outage: bool,
    /// k > 0: the second connection breaks (write error) after (k-1) mod n of the n bytes that are
    /// re-sent on it have been accepted; a third connection must then re-send everything again
    #[serde(default)]
    pub second_outage: u16,
    /// reconnection attempts that the server refuses (CONNACK reason >= 0x80) or that die
    /// (end-of-stream before / inside the CONNACK) between the loss and the successful resumption
    #[serde(default)]
    pub failed_attempts: Vec<u8>,
    /// the resuming connection goes through an AUTH exchange (connect -> AUTH -> authorize ->
    /// CONNACK)
    #[serde(default)]
    pub via_auth: bool,
    /// Receive Maximum announced by the CONNACK of the resuming connection (0 = absent); it may
    /// be smaller than the number of exchanges that are resumed
    #[serde(default)]
    pub r2: u16,
}

pub struct C17;

#[derive(Clone, Debug, PartialEq)]
enum Ph {
    AwaitAck,  // QoS1: PUBACK; QoS2: PUBREC
    AwaitComp, // QoS2 after PUBREC, PUBREL sent
    Done,
}

struct Ex {
    op: usize,
    qos: u8,
    pid: u16,
    ph: Ph,
    dropped: bool,
}

pub fn run_c17(case: &C17Case, cut: usize, o: &mut Outcome) -> Option<Failure> {
    let plan = WritePlan::default();
    let e: Option<u32> = match case.expiry {
        Expiry::Zero => Some(0),
        Expiry::Absent => None,
        Expiry::Finite(v) => Some(v),
        Expiry::Never => Some(u32::MAX),
    };
    let spec = ConnectSpec { session_expiry: e, client_id: Some("c17".into()), ..Default::default() };
    let connack = rc::Connack { session_expiry: if case.connack_repeats { e } else { None }, ..Default::default() };
    let mut w = World::new();
    if let Err(er) = connect_and_run(&mut w, spec.clone(), &connack, &plan) {
        return Some(Failure { sig: "HARNESS/prologue".into(), msg: er });
    }
    let mut tr = Tracker::new();
    tr.skip_existing(&mut w);
    let mut exs: Vec<Ex> = vec![];
    for (k, st) in case.history[..cut].iter().enumerate() {
        w.tick();
        match st {
            Step::Pub1 | Step::Pub2 => {
                let qos = if *st == Step::Pub1 { 1 } else { 2 };
                let op = w.start_op(0, OpSpec::Publish(PublishSpec {
                    qos: Some(qos),
                    topic: Some(format!("c17/{k}")),
                    // every fifth publish is 70 KiB long (packets of very different sizes in the
                    // retransmission queue)
                    payload: Some(if k % 5 == 2 { let mut v = format!("payload-{k}").into_bytes(); v.resize(70_000, b'.'); v } else { format!("payload-{k}").into_bytes() }),
                    user_props: vec![("k".into(), format!("{k}"))],
                    retain: Some(k % 2 == 0),
                    ..Default::default()
                })).unwrap();
                settle(&mut w, &plan, false);
                tr.update(&mut w);
                let Some(pid) = tr.pid(op) else {
                    return Some(Failure { sig: "HARNESS/publish-not-written".into(), msg: format!("{:?}", w.ops[op].res) });
                };
                exs.push(Ex { op, qos, pid, ph: Ph::AwaitAck, dropped: false });
            }
            Step::DropOldest | Step::DropNewest => {
                let idxs: Vec<usize> = (0..exs.len()).filter(|i| exs[*i].ph != Ph::Done && !exs[*i].dropped).collect();
                if idxs.is_empty() {
                    continue;
                }
                let i = if *st == Step::DropOldest { idxs[0] } else { *idxs.last().unwrap() };
                w.drop_op(exs[i].op);
                exs[i].dropped = true;
                settle(&mut w, &plan, false);
                o.class("publish-future-dropped");
            }
            Step::AckOldest | Step::AckNewest => {
                let idxs: Vec<usize> = (0..exs.len()).filter(|i| exs[*i].ph != Ph::Done).collect();
                if idxs.is_empty() {
                    continue;
                }
                let i = if *st == Step::AckOldest { idxs[0] } else { *idxs.last().unwrap() };
                let pid = exs[i].pid;
                let (pkt, next) = match (exs[i].qos, &exs[i].ph) {
                    (1, _) => (rc::Packet::Puback(rc::Ack { pid, ..Default::default() }), Ph::Done),
                    (_, Ph::AwaitAck) => (rc::Packet::Pubrec(rc::Ack { pid, ..Default::default() }), Ph::AwaitComp),
                    _ => (rc::Packet::Pubcomp(rc::Ack { pid, ..Default::default() }), Ph::Done),
                };
                w.reader.feed(rc::encode(&pkt, &rc::Form::short()));
                settle(&mut w, &plan, false);
                exs[i].ph = next;
            }
            Step::RecThenDropUnseen => {
                let Some(i) = (0..exs.len()).find(|i| exs[*i].qos == 2 && exs[*i].ph == Ph::AwaitAck && !exs[*i].dropped) else {
                    continue;
                };
                let pid = exs[i].pid;
                w.reader.feed(rc::encode(&rc::Packet::Pubrec(rc::Ack { pid, ..Default::default() }), &rc::Form::short()));
                // only the context runs: the PUBREC sits in the future's channel
                let mut guard = 0;
                while w.ctx_woken() && guard < 100 {
                    w.poll_ctx();
                    guard += 1;
                }
                w.drop_op(exs[i].op);
                exs[i].dropped = true;
                settle(&mut w, &plan, false);
                exs[i].ph = Ph::AwaitComp;
                o.class("pubrel-owed-by-a-future-dropped-before-it-saw-the-pubrec");
            }
        }
    }
    tr.update(&mut w);
    // what must be re-sent, in the order the packets originally went out
    w.sync_wire();
    let mut expected: Vec<rc::Packet> = vec![];
    for p in w.pkts.iter() {
        match &p.decoded {
            Ok(rc::Packet::Publish(x)) if x.qos > 0 => {
                if let Some(ex) = exs.iter().find(|e| Some(e.pid) == x.pid) {
                    if ex.ph == Ph::AwaitAck {
                        let mut d = x.clone();
                        d.dup = true;
                        expected.push(rc::Packet::Publish(d));
                    }
                }
            }
            Ok(rc::Packet::Pubrel(a)) => {
                if let Some(ex) = exs.iter().find(|e| e.pid == a.pid) {
                    if ex.ph == Ph::AwaitComp {
                        expected.push(rc::Packet::Pubrel(a.clone()));
                    }
                }
            }
            _ => {}
        }
    }
    // number of bytes the retransmission takes (the packets are re-sent as they were written)
    let mut resend_len = 0usize;
    for p in w.pkts.iter() {
        let counted = match &p.decoded {
            Ok(rc::Packet::Publish(x)) if x.qos > 0 => exs.iter().any(|e| Some(e.pid) == x.pid && e.ph == Ph::AwaitAck),
            Ok(rc::Packet::Pubrel(a)) => exs.iter().any(|e| e.pid == a.pid && e.ph == Ph::AwaitComp),
            _ => false,
        };
        if counted {
            resend_len += p.end - p.start;
        }
    }
    let unacked = exs.iter().filter(|e| e.ph == Ph::AwaitAck).count();
    let between = exs.iter().filter(|e| e.ph == Ph::AwaitComp).count();
    if unacked >= 1 && between >= 1 {
        o.nontrivial = true;
    }
    // connection 1 is lost
    w.tick();
    w.reader.set_eof();
    settle(&mut w, &plan, false);
    if w.run_result != Some(RunRes::Err(ErrSum::SocketClosed)) {
        return Some(Failure { sig: "C17/first-connection-end".into(), msg: format!("run() = {:?} after EOF", w.run_result) });
    }
    let secs_ago: u64 = match (case.ago, e) {
        (Ago::Now, _) => 0,
        (Ago::HalfExpiry, Some(v)) => (v / 2) as u64,
        (Ago::HalfExpiry, None) => 0,
        (Ago::LongAfterExpiry, Some(v)) => 2 * v as u64 + 60,
        (Ago::LongAfterExpiry, None) => 60,
    };
    let alive = match e {
        Some(u32::MAX) => true,
        Some(0) | None => false,
        Some(v) => match case.ago {
            Ago::Now => v >= 100,
            Ago::HalfExpiry => true,
            Ago::LongAfterExpiry => false,
        },
    };
    if !w.mark_disconnected(secs_ago) || !w.set_up_again() {
        return Some(Failure { sig: "HARNESS/reconnect".into(), msg: "context not available".into() });
    }
    let mut spec2 = spec.clone();
    spec2.clean_start = Some(false);
    let mut connack2 = connack.clone();
    connack2.session_present = alive;
    if case.r2 > 0 {
        connack2.receive_maximum = Some(case.r2);
        o.class("resumed-under-a-small-receive-maximum");
    }
    for a in &case.failed_attempts {
        // an attempt that does not get through: the session (if alive) must survive it
        w.tick();
        w.start_connect(spec2.clone());
        settle(&mut w, &plan, false);
        match a % 4 {
            0 => w.reader.feed(rc::encode(&rc::Packet::Connack(rc::Connack { reason: 0x88, ..Default::default() }), &rc::Form::canonical())),
            1 => w.reader.feed(rc::encode(&rc::Packet::Connack(rc::Connack { reason: 0x87, reason_string: Some("not now".into()), ..Default::default() }), &rc::Form::canonical())),
            2 => w.reader.set_eof(),
            _ => {
                w.reader.feed(vec![0x20, 0x03, 0x00]);
                settle(&mut w, &plan, false);
                w.reader.set_eof();
            }
        }
        settle(&mut w, &plan, false);
        if !matches!(w.conn_results.last(), Some(ConnRes::Err(_))) {
            return None; // C13 judges what connect() returns
        }
        if !w.set_up_again() {
            return Some(Failure { sig: "HARNESS/reconnect".into(), msg: "context not available after a failed attempt".into() });
        }
        o.class("failed-reconnection-attempt-before-the-resumption");
    }
    w.tick();
    if case.via_auth {
        spec2.auth_method = Some("m".into());
        spec2.auth_data = Some(vec![1]);
        connack2.auth_method = Some("m".into());
        w.start_connect(spec2);
        settle(&mut w, &plan, false);
        w.reader.feed(rc::encode(&rc::Packet::Auth(rc::Auth { reason: 0x18, method: Some("m".into()), data: Some(vec![2]), ..Default::default() }), &rc::Form::canonical()));
        settle(&mut w, &plan, false);
        if !matches!(w.conn_results.last(), Some(ConnRes::Auth(_))) {
            return None; // C13 / C02 judge the handshake
        }
        w.tick();
        w.start_authorize(AuthSpec { reason: Some(0x18), method: Some("m".into()), data: Some(vec![3]), user_props: vec![] });
        settle(&mut w, &plan, false);
        o.class("resumed-through-an-auth-exchange");
    } else {
        w.start_connect(spec2);
        settle(&mut w, &plan, false);
    }
    w.reader.feed(rc::encode(&rc::Packet::Connack(connack2), &rc::Form::canonical()));
    settle(&mut w, &plan, false);
    if !matches!(w.conn_results.last(), Some(ConnRes::Connack(_))) {
        return Some(Failure { sig: "C17/second-connect".into(), msg: format!("{:?}", w.conn_results.last()) });
    }
    w.sync_wire();
    let mut skip = w.pkts.len(); // the CONNECT
    let mut second_outage = false;
    if alive && case.second_outage > 0 && resend_len > 0 {
        // the second connection breaks while the retransmission is being written
        let at = w.wire_len() + (case.second_outage as usize - 1) % resend_len;
        w.writer.set_fault(crate::mockio::WriteFault::ErrAt(at));
        w.tick();
        w.start_run();
        settle(&mut w, &plan, false);
        if let Some(p) = first_panic(&w) {
            return Some(Failure { sig: format!("PANIC/{}", panic_sig(&p)), msg: p });
        }
        if w.run_result.is_none() {
            return None; // how run() ends on a write error is C13's claim
        }
        if !w.mark_disconnected(secs_ago) || !w.set_up_again() {
            return Some(Failure { sig: "HARNESS/reconnect".into(), msg: "context not available (third connection)".into() });
        }
        let mut spec3 = spec.clone();
        spec3.clean_start = Some(false);
        let mut connack3 = connack.clone();
        connack3.session_present = true;
        w.tick();
        w.start_connect(spec3);
        settle(&mut w, &plan, false);
        w.reader.feed(rc::encode(&rc::Packet::Connack(connack3), &rc::Form::canonical()));
        settle(&mut w, &plan, false);
        if !matches!(w.conn_results.last(), Some(ConnRes::Connack(_))) {
            return Some(Failure { sig: "C17/second-connect".into(), msg: format!("third connection: {:?}", w.conn_results.last()) });
        }
        w.sync_wire();
        skip = w.pkts.len();
        second_outage = true;
        o.class("second-outage-during-retransmission");
    }
    w.tick();
    let mut late_op = None;
    if case.queued_during_outage && !second_outage {
        let op = w.start_op(0, OpSpec::Publish(PublishSpec {
            qos: Some(1),
            topic: Some("c17/late".into()),
            payload: Some(b"late".to_vec()),
            ..Default::default()
        })).unwrap();
        w.poll_op(op); // submitted: the request sits in the queue
        late_op = Some(op);
        o.class("request-queued-during-outage");
    }
    w.start_run();
    settle(&mut w, &plan, false);
    if let Some(p) = first_panic(&w) {
        return Some(Failure { sig: format!("PANIC/{}", panic_sig(&p)), msg: p });
    }
    w.sync_wire();
    if w.wire_tail() != 0 {
        return Some(Failure { sig: "C17/wire-partial-packet".into(), msg: "trailing partial packet on connection 2".into() });
    }
    let mut got = vec![];
    for p in &w.pkts[skip..] {
        match &p.decoded {
            Ok(x) => got.push(x.clone()),
            Err(er) => return Some(Failure { sig: "C17/malformed-retransmission".into(), msg: er.0.clone() }),
        }
    }
    // the request queued during the outage: after every retransmission, exactly once
    if let Some(op) = late_op {
        let pos = got.iter().position(|p| matches!(p, rc::Packet::Publish(x) if x.topic == "c17/late"));
        match pos {
            Some(k) if k + 1 == got.len() => {
                if let rc::Packet::Publish(x) = &got[k] {
                    if x.dup {
                        return Some(Failure { sig: "C17/new-request-marked-dup".into(), msg: format!("{x:?}") });
                    }
                }
                got.pop();
            }
            Some(k) => {
                return Some(Failure {
                    sig: "C17/new-request-before-retransmissions".into(),
                    msg: format!("the publish issued during the outage is packet #{k} of {} on the second connection; re-sent packets follow it", got.len()),
                })
            }
            // under a small Receive Maximum the resumed exchanges may leave no slot for it
            None if case.r2 > 0 && (unacked + between) >= case.r2 as usize && w.ops[op].res == Some(OpRes::Err(ErrSum::QuotaExceeded)) => {
                o.class("request-queued-during-outage-refused-for-quota");
            }
            None => {
                return Some(Failure {
                    sig: "C17/new-request-lost".into(),
                    msg: format!("the publish issued during the outage never reached the wire (result {:?})", w.ops[op].res),
                })
            }
        }
    }
    o.class(if alive { "session-alive" } else { "session-expired" });
    o.class(format!("expiry-{}", match case.expiry { Expiry::Zero => "0", Expiry::Absent => "absent", Expiry::Finite(_) => "finite", Expiry::Never => "never" }));
    if alive {
        if got != expected {
            let what = if got.len() > expected.len() {
                "resends-too-much"
            } else if got.len() < expected.len() {
                "resends-too-little"
            } else if got.iter().zip(expected.iter()).any(|(g, x)| matches!((g, x), (rc::Packet::Publish(a), rc::Packet::Publish(b)) if a.dup != b.dup)) {
                "dup-flag"
            } else {
                "order-or-content"
            };
            let names = |v: &Vec<rc::Packet>| v.iter().map(|p| format!("{}:{:?}{}", p.name(), p.pid(), if let rc::Packet::Publish(x) = p { if x.dup { ":dup" } else { "" } } else { "" })).collect::<Vec<_>>();
            return Some(Failure {
                sig: format!("C17/alive/{what}"),
                msg: format!("session alive (expiry {:?}, {} s since disconnection): re-sent {:?}, want {:?}", case.expiry, secs_ago, names(&got), names(&expected)),
            });
        }
        // the original futures complete on acknowledgements received now
        for ex in exs.iter_mut() {
            if ex.ph == Ph::Done {
                continue;
            }
            let pid = ex.pid;
            if ex.qos == 1 {
                w.reader.feed(rc::encode(&rc::Packet::Puback(rc::Ack { pid, ..Default::default() }), &rc::Form::short()));
            } else {
                if ex.ph == Ph::AwaitAck {
                    w.reader.feed(rc::encode(&rc::Packet::Pubrec(rc::Ack { pid, ..Default::default() }), &rc::Form::short()));
                    settle(&mut w, &plan, false);
                }
                w.reader.feed(rc::encode(&rc::Packet::Pubcomp(rc::Ack { pid, ..Default::default() }), &rc::Form::short()));
            }
            settle(&mut w, &plan, false);
            if ex.dropped {
                continue; // nobody waits for it any more
            }
            if w.ops[ex.op].res != Some(OpRes::Ok) {
                return Some(Failure {
                    sig: "C17/alive/original-future-not-completed".into(),
                    msg: format!("publish (pid {pid}, QoS {}) acknowledged on the new connection: result {:?}; run={:?}", ex.qos, w.ops[ex.op].res, w.run_result),
                });
            }
        }
        if w.run_result.is_some() {
            return Some(Failure { sig: "C17/alive/run-returned".into(), msg: format!("{:?}", w.run_result) });
        }
    } else {
        if !got.is_empty() {
            let names: Vec<String> = got.iter().map(|p| format!("{}:{:?}", p.name(), p.pid())).collect();
            return Some(Failure {
                sig: "C17/expired/resends".into(),
                msg: format!("session expired (expiry {:?}, {} s since disconnection) yet re-sent {names:?}", case.expiry, secs_ago),
            });
        }
        for ex in &exs {
            if ex.ph != Ph::Done && !ex.dropped {
                match &w.ops[ex.op].res {
                    Some(OpRes::Err(_)) => {}
                    other => {
                        return Some(Failure {
                            sig: "C17/expired/abandoned-operation-not-failed".into(),
                            msg: format!("publish pid {} abandoned with the expired session: result {other:?}", ex.pid),
                        })
                    }
                }
            }
        }
    }
    // the resumption is over: a publish issued now is ordinary traffic of this connection, also
    // when run() is dropped at a quiet moment and called again (nothing is "resumed" a second time)
    if w.run_result.is_none() && w.ctx_running() {
        w.tick();
        let op = w.start_op(0, OpSpec::Publish(PublishSpec { qos: Some(1), topic: Some("c17/after".into()), payload: Some(b"after".to_vec()), ..Default::default() }))?;
        settle(&mut w, &plan, false);
        if w.ops[op].res.is_some() {
            return None; // refused for quota under a small Receive Maximum: nothing to see
        }
        w.sync_wire();
        let n = w.pkts.len();
        let pid = w.pkts[..n].iter().rev().find_map(|p| match &p.decoded {
            Ok(rc::Packet::Publish(x)) if x.topic == "c17/after" => x.pid,
            _ => None,
        })?;
        if !w.cancel_run() || !w.start_run() {
            return None;
        }
        settle(&mut w, &plan, false);
        if let Some(p) = first_panic(&w) {
            return Some(Failure { sig: format!("PANIC/{}", panic_sig(&p)), msg: p });
        }
        w.sync_wire();
        if w.pkts.len() != n {
            let names: Vec<String> = w.pkts[n..].iter().map(|p| match &p.decoded { Ok(x) => format!("{}:{:?}", x.name(), x.pid()), Err(e) => e.0.clone() }).collect();
            return Some(Failure {
                sig: "C17/resent-again-on-run-re-entry".into(),
                msg: format!("after the resumption a new QoS 1 publish (pid {pid}) was in flight; run() was dropped at a quiet moment and called again: the client wrote {names:?} (nothing was due)"),
            });
        }
        w.reader.feed(rc::encode(&rc::Packet::Puback(rc::Ack { pid, ..Default::default() }), &rc::Form::short()));
        settle(&mut w, &plan, false);
        if w.ops[op].res != Some(OpRes::Ok) {
            return Some(Failure {
                sig: "C17/new-request-lost".into(),
                msg: format!("a publish issued after the resumption, with run() re-entered while it was in flight: result {:?} after its PUBACK", w.ops[op].res),
            });
        }
        o.class("run-re-entered-after-the-resumption");
    }
    None
}

/// C10 on a resumed session: the exchanges that are re-sent still occupy the server's Receive
/// Maximum. `steps` run on connection 1 under Receive Maximum `r1`; the connection is lost, the
/// session resumed (or expired) under Receive Maximum `r2`; then new publishes are attempted until
/// one is refused, everything is acknowledged, and the full quota must be back.
pub fn run_c10_resume(steps: &[Step], r1: u16, r2: u16, expired: bool, lost_in_publish: Option<u8>, o: &mut Outcome) -> Option<Failure> {
    let plan = WritePlan::default();
    let e = if expired { 0 } else { u32::MAX };
    let spec = ConnectSpec { session_expiry: Some(e), client_id: Some("c10r".into()), ..Default::default() };
    let connack = rc::Connack { receive_maximum: Some(r1), ..Default::default() };
    let mut w = World::new();
    if let Err(er) = connect_and_run(&mut w, spec.clone(), &connack, &plan) {
        return Some(Failure { sig: "HARNESS/prologue".into(), msg: er });
    }
    let mut tr = Tracker::new();
    tr.skip_existing(&mut w);
    let mut exs: Vec<Ex> = vec![];
    let publish = |w: &mut World, tag: String, qos: u8| -> usize {
        w.start_op(0, OpSpec::Publish(PublishSpec { qos: Some(qos), topic: Some(tag), payload: Some(b"x".to_vec()), ..Default::default() })).unwrap()
    };
    for (k, st) in steps.iter().enumerate() {
        w.tick();
        match st {
            Step::Pub1 | Step::Pub2 => {
                let qos = if *st == Step::Pub1 { 1 } else { 2 };
                let op = publish(&mut w, format!("c10r/{k}"), qos);
                settle(&mut w, &plan, false);
                tr.update(&mut w);
                // refused for quota on connection 1: C10 proper judges that
                if let Some(pid) = tr.pid(op) {
                    exs.push(Ex { op, qos, pid, ph: Ph::AwaitAck, dropped: false });
                }
            }
            Step::AckOldest | Step::AckNewest => {
                let idxs: Vec<usize> = (0..exs.len()).filter(|i| exs[*i].ph != Ph::Done).collect();
                if idxs.is_empty() {
                    continue;
                }
                let i = if *st == Step::AckOldest { idxs[0] } else { *idxs.last().unwrap() };
                let pid = exs[i].pid;
                let (pkt, next) = match (exs[i].qos, &exs[i].ph) {
                    (1, _) => (rc::Packet::Puback(rc::Ack { pid, ..Default::default() }), Ph::Done),
                    (_, Ph::AwaitAck) => (rc::Packet::Pubrec(rc::Ack { pid, ..Default::default() }), Ph::AwaitComp),
                    _ => (rc::Packet::Pubcomp(rc::Ack { pid, ..Default::default() }), Ph::Done),
                };
                w.reader.feed(rc::encode(&pkt, &rc::Form::short()));
                settle(&mut w, &plan, false);
                exs[i].ph = next;
            }
            Step::DropOldest | Step::DropNewest | Step::RecThenDropUnseen => {}
        }
    }
    let unacked = exs.iter().filter(|e| e.ph == Ph::AwaitAck).count();
    let between = exs.iter().filter(|e| e.ph == Ph::AwaitComp).count();
    w.tick();
    match lost_in_publish {
        // the connection dies k bytes into the write of one more QoS 1 PUBLISH: that publish never
        // became part of the session (its caller gets an error) and must not occupy a slot later
        Some(k) if (exs.iter().filter(|e| e.ph != Ph::Done).count() as u16) < r1 => {
            w.writer.set_fault(crate::mockio::WriteFault::ErrAt(w.wire_len() + k as usize));
            let _ = publish(&mut w, "c10r/torn".into(), 1);
            settle(&mut w, &plan, false);
            o.class("resume/connection-lost-inside-a-publish-write");
        }
        _ => {
            w.reader.set_eof();
            settle(&mut w, &plan, false);
        }
    }
    if w.run_result != Some(RunRes::Err(ErrSum::SocketClosed)) {
        return None; // C13 / C17 judge this
    }
    if !w.mark_disconnected(0) || !w.set_up_again() {
        return Some(Failure { sig: "HARNESS/reconnect".into(), msg: "context not available".into() });
    }
    let mut spec2 = spec.clone();
    spec2.clean_start = Some(false);
    let connack2 = rc::Connack { receive_maximum: Some(r2), session_present: !expired, ..Default::default() };
    w.tick();
    w.start_connect(spec2);
    settle(&mut w, &plan, false);
    w.reader.feed(rc::encode(&rc::Packet::Connack(connack2), &rc::Form::canonical()));
    settle(&mut w, &plan, false);
    if !matches!(w.conn_results.last(), Some(ConnRes::Connack(_))) {
        return None;
    }
    w.sync_wire();
    let skip = w.pkts.len();
    w.tick();
    w.start_run();
    settle(&mut w, &plan, false);
    if let Some(p) = first_panic(&w) {
        return Some(Failure { sig: format!("PANIC/{}", panic_sig(&p)), msg: p });
    }
    w.sync_wire();
    // PUBLISH packets in flight on connection 2: identifier -> QoS
    let mut in_flight: BTreeMap<u16, u8> = BTreeMap::new();
    let mut rel = 0usize;
    for p in &w.pkts[skip..] {
        match &p.decoded {
            Ok(rc::Packet::Publish(x)) if x.qos > 0 => {
                in_flight.insert(x.pid.unwrap_or(0), x.qos);
            }
            Ok(rc::Packet::Pubrel(_)) => rel += 1,
            _ => {}
        }
    }
    let resent = in_flight.len();
    if expired && (resent > 0 || rel > 0) {
        return None; // C17 judges this
    }
    if !expired && (resent != unacked || rel != between) {
        return None; // C17 judges what is re-sent
    }
    o.class(if expired { "resume/session-expired" } else { "resume/session-alive" });
    if resent + rel > 0 {
        o.class("resume/with-exchanges-in-flight");
    }
    if resent > r2 as usize {
        // the re-sent packets alone exceed the new limit; only "nothing new is accepted" is judged
        o.class("resume/re-sent-alone-exceed-R2");
    }
    // new publishes until one is refused
    let mut accepted = 0usize;
    let mut seen = w.pkts.len();
    let mut new_ops: Vec<(usize, u16, u8)> = vec![];
    let limit = r2 as usize + 2;
    let mut refused = false;
    for k in 0..limit {
        w.tick();
        let qos = if k % 2 == 0 { 1 } else { 2 };
        let op = publish(&mut w, format!("c10r/new/{k}"), qos);
        settle(&mut w, &plan, false);
        w.sync_wire();
        let mut wrote = None;
        for p in &w.pkts[seen..] {
            if let Ok(rc::Packet::Publish(x)) = &p.decoded {
                if x.topic == format!("c10r/new/{k}") {
                    wrote = x.pid;
                }
            }
        }
        seen = w.pkts.len();
        match (&w.ops[op].res, wrote) {
            (Some(OpRes::Err(ErrSum::QuotaExceeded)), None) => {
                refused = true;
                break;
            }
            (Some(OpRes::Err(ErrSum::QuotaExceeded)), Some(_)) => {
                return Some(Failure { sig: "C10/refused-but-written/resumed-session".into(), msg: format!("new publish #{k} on the resumed connection failed with QuotaExceeded but is on the wire") });
            }
            (None, Some(pid)) => {
                accepted += 1;
                in_flight.insert(pid, qos);
                new_ops.push((op, pid, qos));
                if in_flight.len() > r2 as usize && resent <= r2 as usize {
                    return Some(Failure {
                        sig: "C10/receive-maximum-exceeded/resumed-session".into(),
                        msg: format!(
                            "Receive Maximum {r2} on the resumed connection: {resent} PUBLISH packets re-sent (DUP) and {accepted} new ones accepted, none acknowledged yet = {} in flight (connection 1: Receive Maximum {r1}, {unacked} unacknowledged, {between} between PUBREC and PUBCOMP)",
                            in_flight.len()
                        ),
                    });
                }
                if resent > r2 as usize {
                    return Some(Failure {
                        sig: "C10/receive-maximum-exceeded/resumed-session".into(),
                        msg: format!("Receive Maximum {r2}: {resent} PUBLISH packets re-sent already exceed it, yet a new QoS {qos} publish was accepted"),
                    });
                }
            }
            _ => return None, // some other outcome (run ended, ...): not C10's business
        }
    }
    let _ = refused;
    // lower bound: never fewer than R2 minus everything that may still count
    let floor = (r2 as usize).saturating_sub(resent + rel);
    if accepted < floor {
        return Some(Failure {
            sig: "C10/refused-below-receive-maximum/resumed-session".into(),
            msg: format!("Receive Maximum {r2} on the {} connection, {resent} PUBLISH + {rel} PUBREL re-sent: only {accepted} new publishes accepted before QuotaExceeded, at least {floor} slots are free", if expired { "new (session expired)" } else { "resumed" }),
        });
    }
    if expired && accepted != (r2 as usize).min(limit) {
        return Some(Failure {
            sig: "C10/not-refused-at-receive-maximum/resumed-session".into(),
            msg: format!("Receive Maximum {r2}, session expired: {accepted} new publishes accepted"),
        });
    }
    // acknowledge everything on connection 2 (re-sent and new); then exactly R2 slots are free
    let mut pend: Vec<(u16, u8, bool)> = vec![];
    for ex in exs.iter().filter(|e| e.ph != Ph::Done) {
        if !expired {
            pend.push((ex.pid, ex.qos, ex.ph == Ph::AwaitComp));
        }
    }
    for (_, pid, qos) in &new_ops {
        pend.push((*pid, *qos, false));
    }
    for (pid, qos, comp_only) in pend {
        if qos == 1 {
            w.reader.feed(rc::encode(&rc::Packet::Puback(rc::Ack { pid, ..Default::default() }), &rc::Form::short()));
        } else {
            if !comp_only {
                w.reader.feed(rc::encode(&rc::Packet::Pubrec(rc::Ack { pid, ..Default::default() }), &rc::Form::short()));
                settle(&mut w, &plan, false);
            }
            w.reader.feed(rc::encode(&rc::Packet::Pubcomp(rc::Ack { pid, ..Default::default() }), &rc::Form::short()));
        }
        settle(&mut w, &plan, false);
    }
    if w.run_result.is_some() {
        return None;
    }
    w.sync_wire();
    let mut seen = w.pkts.len();
    let mut accepted2 = 0usize;
    let mut refused2 = false;
    for k in 0..(r2 as usize + 1) {
        w.tick();
        let op = publish(&mut w, format!("c10r/after/{k}"), 1);
        settle(&mut w, &plan, false);
        w.sync_wire();
        let wrote = w.pkts[seen..].iter().any(|p| matches!(&p.decoded, Ok(rc::Packet::Publish(x)) if x.topic == format!("c10r/after/{k}")));
        seen = w.pkts.len();
        match (&w.ops[op].res, wrote) {
            (Some(OpRes::Err(ErrSum::QuotaExceeded)), false) => {
                refused2 = true;
                break;
            }
            (None, true) => accepted2 += 1,
            _ => return None,
        }
    }
    if accepted2 < r2 as usize {
        return Some(Failure {
            sig: "C10/refused-below-receive-maximum/resumed-session".into(),
            msg: format!("after every exchange on the second connection was acknowledged, only {accepted2} of Receive Maximum {r2} publishes were accepted (a slot leaked across the reconnection)"),
        });
    }
    if !refused2 {
        return Some(Failure {
            sig: "C10/not-refused-at-receive-maximum/resumed-session".into(),
            msg: format!("after every exchange was acknowledged, {} publishes were accepted under Receive Maximum {r2}", accepted2),
        });
    }
    None
}

impl Property for C17 {
    const ID: &'static str = "C17";
    const RULE: &'static str = "a history of QoS 1/2 publishes and acknowledgements (oldest/newest) on connection 1, cut by EOF after EVERY prefix; then the hook records the disconnection secs_ago in {0, E/2, 2E+60}, the same Context is set up on fresh mocks, connected (clean start false, session expiry E in {0, absent, finite 100..10^6, 2^32-1} on both connections, CONNACK repeating it or silent) and run; the second wire is strictly decoded. Non-trivial = at the cut >= 1 PUBLISH is unacknowledged and >= 1 exchange is between PUBREC and PUBCOMP";
    type Case = C17Case;

    fn strategy(tier: Tier) -> BoxedStrategy<C17Case> {
        let s = (
            vec(
                prop_oneof![6 => Just(Step::Pub1), 8 => Just(Step::Pub2), 6 => Just(Step::AckOldest), 4 => Just(Step::AckNewest), 1 => Just(Step::DropOldest), 1 => Just(Step::DropNewest), 2 => Just(Step::RecThenDropUnseen)],
                1..tier.pick(10, 20),
            ),
            prop_oneof![
                1 => Just(Expiry::Zero),
                1 => Just(Expiry::Absent),
                4 => (100u32..1_000_000).prop_map(Expiry::Finite),
                2 => Just(Expiry::Never),
            ],
            any::<bool>(),
            prop_oneof![Just(Ago::Now), Just(Ago::HalfExpiry), Just(Ago::LongAfterExpiry)],
        )
            .prop_map(|(history, expiry, connack_repeats, ago)| C17Case { history, expiry, connack_repeats, ago, queued_during_outage: false, second_outage: 0, failed_attempts: vec![], via_auth: false, r2: 0 })
            .boxed();
        let s = (s, prop::bool::weighted(0.3), prop_oneof![2 => Just(0u16), 1 => 1u16..400], prop_oneof![3 => Just(vec![]), 1 => vec(0u8..4, 1..3)])
            .prop_map(|(mut c, q, so, fa)| {
                c.queued_during_outage = q;
                c.second_outage = so;
                c.via_auth = fa.len() % 2 == 1 || so % 3 == 1;
                c.failed_attempts = fa;
                c
            })
            .boxed();
        (s, prop_oneof![2 => Just(0u16), 1 => 1u16..4])
            .prop_map(|(mut c, r2)| {
                c.r2 = r2;
                c
            })
            .boxed()
    }

    fn cases(tier: Tier) -> u32 {
        tier.pick(8000, 60_000)
    }

    fn assumptions() -> Vec<String> {
        vec![
            "one session-expiry value per case for both connections; secs_ago stays >= 50 s away from the expiry threshold; which connection's interval governs is not asserted".into(),
            "needs the feature-guarded hook Context::verif_mark_disconnected (production code never records a disconnection)".into(),
            "'original order' = the order in which the packets were first written on connection 1".into(),
        ]
    }

    fn run(case: &C17Case) -> Outcome {
        let mut o = Outcome::ok();
        for cut in 0..=case.history.len() {
            if let Some(mut f) = run_c17(case, cut, &mut o) {
                f.msg = format!("cut after {cut} of {} steps: {}", case.history.len(), f.msg);
                o.fail = Some(f);
                break;
            }
        }
        o.classes.sort();
        o.classes.dedup();
        o
    }
}
