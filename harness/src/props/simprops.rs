//! Properties decided with the scenario interpreter + reference model (sim.rs):
//! C05, C06, C07, C08, C09, C10, C13 (run phase), C14, C15, C16.

use super::common::*;
use crate::api::*;
use crate::driver::*;
use crate::gen;
use crate::refcodec as rc;
use crate::sim::*;
use proptest::collection::vec;
use proptest::prelude::*;
use serde::{Deserialize, Serialize};

// ---------------------------------------------------------------------------------
// event strategies

pub fn deco() -> BoxedStrategy<Deco> {
    (any::<u8>(), any::<bool>(), 0u8..3, any::<bool>())
        .prop_map(|(reason, reason_string, user_props, short)| Deco {
            reason,
            reason_string,
            user_props,
            short,
        })
        .boxed()
}

/// acknowledgement with a success reason (index 0 of every table)
fn deco_ok() -> BoxedStrategy<Deco> {
    (any::<bool>(), 0u8..3, any::<bool>())
        .prop_map(|(reason_string, user_props, short)| Deco {
            reason: 0,
            reason_string,
            user_props,
            short,
        })
        .boxed()
}

pub fn sel() -> BoxedStrategy<u16> {
    prop_oneof![2 => Just(0u16), 2 => Just(65535u16), 3 => any::<u16>()].boxed()
}

pub fn ack(d: BoxedStrategy<Deco>) -> BoxedStrategy<Ev> {
    (sel(), d)
        .prop_map(|(sel, deco)| Ev::In(Inbound::Ack { sel, deco }))
        .boxed()
}

pub fn start(kinds: Vec<(u32, OpKind)>) -> BoxedStrategy<Ev> {
    let total: u32 = kinds.iter().map(|k| k.0).sum();
    (0..total, 0u8..4, 0u8..4)
        .prop_map(move |(mut x, h, n)| {
            let mut kind = kinds[0].1;
            for (w, k) in &kinds {
                if x < *w {
                    kind = *k;
                    break;
                }
                x -= w;
            }
            let kind = match kind {
                OpKind::Sub(_) => OpKind::Sub(n),
                OpKind::Unsub(_) => OpKind::Unsub(n),
                k => k,
            };
            Ev::Start { h: h * 64, kind, settle: false, solo: false }
        })
        .boxed()
}

fn in_publish(qos: BoxedStrategy<u8>, pid: BoxedStrategy<u16>, target: BoxedStrategy<Target>) -> BoxedStrategy<Ev> {
    (qos, any::<bool>(), any::<bool>(), pid, target, prop_oneof![4 => 0u16..8, 1 => Just(600u16)], prop_oneof![1 => Just(0u8), 1 => any::<u8>()])
        .prop_map(|(qos, dup, retain, pid, target, payload_len, props)| {
            Ev::In(Inbound::Publish { qos, dup, retain, pid, target, payload_len, props })
        })
        .boxed()
}

/// subscribe + SUBACK + stream(): a subscription whose stream exists (macro event)
/// subscribe + SUBACK + stream()
fn sub_ready_events() -> Vec<Ev> {
    vec![
        Ev::Start { h: 0, kind: OpKind::Sub(0), settle: false, solo: false },
        Ev::Settle,
        Ev::In(Inbound::Ack { sel: 65535, deco: Deco::default() }),
        Ev::Settle,
        Ev::MakeStream { sel: 65535 },
    ]
}

fn sub_ready() -> BoxedStrategy<Vec<Ev>> {
    (0u8..4, any::<bool>())
        .prop_map(|(n, with_stream)| {
            let mut v = vec![
                Ev::Start { h: 0, kind: OpKind::Sub(n), settle: false, solo: false },
                Ev::Settle,
                Ev::In(Inbound::Ack { sel: 65535, deco: Deco { reason_string: true, ..Default::default() } }),
                Ev::Settle,
            ];
            if with_stream {
                v.push(Ev::MakeStream { sel: 65535 });
            }
            v
        })
        .boxed()
}

fn settled(e: Ev) -> Ev {
    match e {
        Ev::Start { h, kind, .. } => Ev::Start { h, kind, settle: true, solo: false },
        other => other,
    }
}

fn flat(evs: Vec<Vec<Ev>>) -> Vec<Ev> {
    evs.into_iter().flatten().collect()
}

fn one<S: Strategy<Value = Ev> + 'static>(e: S) -> BoxedStrategy<Vec<Ev>> {
    e.prop_map(|x| vec![x]).boxed()
}

fn scenario_v(rm: BoxedStrategy<Option<u16>>, ev: BoxedStrategy<Vec<Ev>>, len: std::ops::Range<usize>) -> BoxedStrategy<Scenario> {
    (rm, vec(ev, len), id_offset(2), max_pkt(), prologue_variant())
        .prop_map(|(receive_max, events, id_offset, max_packet_size, prologue)| Scenario { receive_max, max_packet_size, id_offset, prologue, events: flat(events) })
        .boxed()
}

/// identifiers consumed before the history: mostly none, often past 255, rarely right
/// before the 16-bit wrap-around (`heavy` = how often, in parts of 1000)
fn id_offset(heavy: u32) -> BoxedStrategy<u32> {
    prop_oneof![
        (600 - heavy.min(100)) => Just(0u32),
        300 => 250u32..300,
        100 => prop::sample::select(vec![254u32, 255, 256, 510, 1000]),
        heavy => prop::sample::select(vec![65_280u32, 65_500, 65_530]),
    ]
    .boxed()
}

/// server Maximum Packet Size: mostly absent, sometimes small enough that multi-filter
/// subscribes/unsubscribes of the history are refused locally
fn max_pkt() -> BoxedStrategy<Option<u32>> {
    prop_oneof![8 => Just(None), 1 => (18u32..42).prop_map(Some), 1 => (200u32..300).prop_map(Some)].boxed()
}

#[allow(dead_code)]
fn with_offset(s: BoxedStrategy<Scenario>, heavy: u32) -> BoxedStrategy<Scenario> {
    (s, id_offset(heavy))
        .prop_map(|(mut s, o)| {
            s.id_offset = o;
            s
        })
        .boxed()
}

fn target_any() -> BoxedStrategy<Target> {
    prop_oneof![
        6 => sel().prop_map(Target::Sub),
        2 => (sel(), sel()).prop_map(|(a, b)| Target::Two(a, b)),
        1 => Just(Target::Unknown),
        1 => Just(Target::None),
    ]
    .boxed()
}

/// one history in eight gets a crowd: 30-90 operations of mixed kinds started back to back at a
/// generated position, so that dozens of acknowledgements are outstanding at once
pub fn crowd(s: BoxedStrategy<Scenario>) -> BoxedStrategy<Scenario> {
    (s, prop::bool::weighted(0.125), any::<u16>(), 30usize..90, any::<u8>())
        .prop_map(|(mut s, on, pos, n, salt)| {
            if on {
                let at = ((pos as usize) * (s.events.len() + 1)) >> 16;
                let burst: Vec<Ev> = (0..n)
                    .map(|i| {
                        let kind = match (i + salt as usize) % 5 {
                            0 => OpKind::Ping,
                            1 => OpKind::Pub1,
                            2 => OpKind::Pub2,
                            3 => OpKind::Sub((i % 4) as u8),
                            _ => OpKind::Unsub((i % 3) as u8),
                        };
                        Ev::Start { h: ((i % 3) * 100) as u8, kind, settle: false, solo: false }
                    })
                    .collect();
                s.events.splice(at..at, burst);
            }
            s
        })
        .boxed()
}

/// histories in which the broker sends no PUBLISH may run with tiny client-side limits
fn no_inbound(s: BoxedStrategy<Scenario>) -> BoxedStrategy<Scenario> {
    (s, prologue_variant_no_inbound())
        .prop_map(|(mut s, p)| {
            s.prologue = p;
            s
        })
        .boxed()
}

fn scenario(rm: BoxedStrategy<Option<u16>>, ev: BoxedStrategy<Ev>, len: std::ops::Range<usize>) -> BoxedStrategy<Scenario> {
    (rm, vec(ev, len), id_offset(2), max_pkt(), prologue_variant())
        .prop_map(|(receive_max, events, id_offset, max_packet_size, prologue)| Scenario { receive_max, max_packet_size, id_offset, prologue, events })
        .boxed()
}

pub fn failure_for(out: &SimOut, prefixes: &[&str]) -> Option<Failure> {
    out.failures
        .iter()
        .find(|f| {
            prefixes.iter().any(|p| f.sig.starts_with(p))
                || f.sig.starts_with("HARNESS/")
                || f.sig.starts_with("PANIC/")
                || f.sig.starts_with("LIVELOCK/")
        })
        .cloned()
}

fn all_pub_sub() -> Vec<(u32, OpKind)> {
    vec![
        (3, OpKind::Pub1),
        (3, OpKind::Pub2),
        (2, OpKind::Sub(0)),
        (1, OpKind::Unsub(0)),
        (2, OpKind::Ping),
    ]
}

/// enumerate all sequences of length `depth` over `alphabet`, partitioned over workers
fn sequences<T: Clone + 'static>(alphabet: Vec<T>, depth: usize, worker: usize, workers: usize) -> impl Iterator<Item = Vec<T>> {
    let n = alphabet.len();
    let total = n.pow(depth as u32);
    (0..total)
        .filter(move |i| i % workers == worker)
        .map(move |mut i| {
            let mut v = Vec::with_capacity(depth);
            for _ in 0..depth {
                v.push(alphabet[i % n].clone());
                i /= n;
            }
            v
        })
}

/// A cancellation while MANY other operations are outstanding (31, 32, 33, 63, 64, 65, 127, 128, 130,
/// 300): the abandoned operation is the oldest / in the middle / the newest; cancelled before its
/// first acknowledgement or (QoS 2) between the phases; Receive Maximum 1 or unlimited.
pub fn crowded_cancellations(worker: usize, workers: usize, thorough: bool) -> Vec<Scenario> {
    let ok = Deco::default();
        let mut crowded = vec![];
        let mut k = 0;
        let sizes: Vec<usize> = if thorough { vec![31, 32, 33, 63, 64, 65, 127, 128, 129, 130, 255, 256, 257, 300] } else { vec![31, 32, 33, 63, 64, 65, 128, 130] };
    for n in sizes {
            for kind in [OpKind::Pub2, OpKind::Pub1, OpKind::Sub(0)] {
                for between in [false, true] {
                    for pos in [0usize, n / 2, n] {
                        for r in [Some(1u16), None] {
                            k += 1;
                            if k % workers != worker || (between && kind != OpKind::Pub2) {
                                continue;
                            }
                            let mut events = vec![];
                            let filler = |i: usize| match i % 3 {
                                0 => OpKind::Ping,
                                1 => OpKind::Sub(0),
                                _ => OpKind::Unsub(1),
                            };
                            for i in 0..pos {
                                events.push(Ev::Start { h: 0, kind: filler(i), settle: false, solo: false });
                            }
                            events.push(Ev::Settle);
                            events.push(Ev::Start { h: 0, kind, settle: false, solo: false });
                            events.push(Ev::Settle); // written
                            if between {
                                // PUBREC arrives and is processed by the context only
                                events.push(Ev::In(Inbound::Ack { sel: 65535, deco: ok }));
                                events.push(Ev::PollCtx);
                            }
                            events.push(Ev::DropOp { sel: 65535 });
                            for i in pos..n {
                                events.push(Ev::Start { h: 0, kind: filler(i), settle: false, solo: false });
                            }
                            events.push(Ev::Settle);
                            // every acknowledgement, oldest outstanding first, until nothing is ackable
                            for _ in 0..(n + 4) {
                                events.push(Ev::In(Inbound::Ack { sel: 0, deco: ok }));
                                events.push(Ev::Settle);
                            }
                            // the slot must be free again
                            events.push(Ev::Start { h: 0, kind: OpKind::Pub1, settle: true, solo: false });
                            events.push(Ev::Settle);
                            crowded.push(Scenario { receive_max: r, max_packet_size: None, id_offset: 0, prologue: 0, events });
                        }
                    }
                }
            }
        }
    crowded
}

// ---------------------------------------------------------------------------------
// C05

pub struct C05;

impl Property for C05 {
    const ID: &'static str = "C05";
    const RULE: &'static str = "fine-grained schedules: operation starts (pub1/pub2/sub/unsub/ping from any handle clone), individual polls of the context and of operation futures (woken or not), broker acknowledgements for any outstanding operation chosen by index (any permutation), each with unique content; exhaustive over a reduced 8-symbol alphabet to a bounded depth plus random walks. Non-trivial = >= 2 operations outstanding at once and >= 1 acknowledgement out of issue order";
    type Case = Scenario;

    fn strategy(tier: Tier) -> BoxedStrategy<Scenario> {
        let ev = prop_oneof![
            5 => start(all_pub_sub()),
            1 => Just(Ev::CloneHandle),
            5 => Just(Ev::PollCtx),
            5 => sel().prop_map(|sel| Ev::PollOp { sel }),
            6 => ack(deco()),
            1 => Just(Ev::Settle),
            // a caller giving up on one operation must not change how the OTHERS complete (only
            // those are judged here; what happens to the abandoned one is C15's claim)
            1 => sel().prop_map(|sel| Ev::DropOp { sel }),
            1 => Just(Ev::ReenterRun),
        ]
        .boxed();
        // the same with application messages arriving in between, for subscriptions whose stream
        // is read, unread or dropped: other traffic must not change how an operation completes
        let ev2 = prop_oneof![
            5 => start(all_pub_sub()),
            2 => Just(Ev::PollCtx),
            2 => sel().prop_map(|sel| Ev::PollOp { sel }),
            5 => ack(deco()),
            2 => Just(Ev::Settle),
            2 => sel().prop_map(|sel| Ev::MakeStream { sel }),
            2 => sel().prop_map(|sel| Ev::DropStream { sel }),
            1 => sel().prop_map(|sel| Ev::PollStream { sel }),
            5 => in_publish((0u8..3).boxed(), Just(0u16).boxed(), prop_oneof![4 => sel().prop_map(Target::Sub), 1 => (sel(), sel()).prop_map(|(a, b)| Target::Two(a, b)), 1 => Just(Target::Unknown), 1 => Just(Target::None)].boxed()),
        ]
        .boxed();
        prop_oneof![
            3 => crowd(no_inbound(scenario(Just(None).boxed(), ev, 1..tier.pick(60, 200)))),
            1 => scenario(Just(None).boxed(), ev2, 1..tier.pick(40, 120)),
        ]
        .boxed()
    }

    fn cases(tier: Tier) -> u32 {
        tier.pick(8000, 150_000)
    }

    fn exhaustive(tier: Tier, worker: usize, workers: usize) -> Box<dyn Iterator<Item = Scenario>> {
        let d = Deco { reason: 0, reason_string: true, user_props: 1, short: false };
        let alphabet = vec![
            Ev::Start { h: 0, kind: OpKind::Pub1, settle: false, solo: false },
            Ev::Start { h: 0, kind: OpKind::Sub(0), settle: false, solo: false },
            Ev::Start { h: 0, kind: OpKind::Ping, settle: false, solo: false },
            Ev::In(Inbound::Ack { sel: 0, deco: d }),
            Ev::In(Inbound::Ack { sel: 65535, deco: d }),
            Ev::PollCtx,
            Ev::PollOp { sel: 0 },
            Ev::PollOp { sel: 65535 },
        ];
        // QoS 2 / QoS 1 publishes with one of them abandoned at every point
        let with_drop = vec![
            Ev::Start { h: 0, kind: OpKind::Pub2, settle: false, solo: false },
            Ev::Start { h: 0, kind: OpKind::Pub1, settle: false, solo: false },
            Ev::In(Inbound::Ack { sel: 0, deco: d }),
            Ev::In(Inbound::Ack { sel: 65535, deco: d }),
            Ev::Settle,
            Ev::PollCtx,
            Ev::DropOp { sel: 0 },
        ];
        // operations of one kind outstanding on both sides of the 16-bit wrap of the identifier
        // counter, acknowledged oldest first / newest first / alternately
        let mut across_wrap = vec![];
        let mut k = 0usize;
        for off in 65_529u32..=65_535 {
            for pattern in 0u8..5 {
                for order in 0u8..3 {
                    k += 1;
                    if k % workers != worker {
                        continue;
                    }
                    let mut events = vec![];
                    for i in 0..8u8 {
                        let kind = match (pattern, i % 2) {
                            (0, _) => OpKind::Sub(0),
                            (1, _) => OpKind::Unsub(0),
                            (2, 0) => OpKind::Sub(1),
                            (2, _) => OpKind::Pub1,
                            (3, 0) => OpKind::Sub(0),
                            (3, _) => OpKind::Unsub(1),
                            (_, 0) => OpKind::Pub2,
                            _ => OpKind::Unsub(0),
                        };
                        events.push(Ev::Start { h: 0, kind, settle: false, solo: false });
                    }
                    events.push(Ev::Settle);
                    for j in 0..16u16 {
                        let sel = match order {
                            0 => 0,
                            1 => 65535,
                            _ => if j % 2 == 0 { 65535 } else { 0 },
                        };
                        events.push(Ev::In(Inbound::Ack { sel, deco: d }));
                        events.push(Ev::Settle);
                    }
                    across_wrap.push(Scenario { receive_max: None, max_packet_size: None, id_offset: off, prologue: 0, events });
                }
            }
        }
        // subscribes outstanding while messages arrive for subscriptions whose stream is gone
        let with_streams = vec![
            Ev::Start { h: 0, kind: OpKind::Pub1, settle: false, solo: false },
            Ev::Start { h: 0, kind: OpKind::Sub(0), settle: false, solo: false },
            Ev::In(Inbound::Ack { sel: 65535, deco: d }),
            Ev::In(Inbound::Ack { sel: 0, deco: d }),
            Ev::MakeStream { sel: 65535 },
            Ev::DropStream { sel: 0 },
            Ev::In(Inbound::Publish { qos: 0, dup: false, retain: false, pid: 0, target: Target::Sub(65535), payload_len: 1, props: 0 }),
            Ev::Settle,
        ];
        Box::new(
            sequences(alphabet, tier.pick(5, 7), worker, workers)
                .map(|events| Scenario { receive_max: None, max_packet_size: None, id_offset: 0, prologue: 0, events })
                .chain(sequences(with_drop, tier.pick(6, 8), worker, workers).map(|events| Scenario { receive_max: None, max_packet_size: None, id_offset: 0, prologue: 0, events }))
                .chain(sequences(with_streams, tier.pick(6, 7), worker, workers).map(|mut events| {
                    events.push(Ev::Settle);
                    Scenario { receive_max: None, max_packet_size: None, id_offset: 0, prologue: 0, events }
                }))
                .chain(sequences((0u8..7).collect(), tier.pick(6, 7), worker, workers).map(move |word| {
                    let mut events = vec![];
                    for c in word {
                        match c {
                            0 => events.push(Ev::Start { h: 0, kind: OpKind::Pub1, settle: false, solo: false }),
                            1 => events.push(Ev::Start { h: 0, kind: OpKind::Sub(0), settle: false, solo: false }),
                            // the newest subscribe acknowledged, its stream taken and dropped
                            2 => events.extend([Ev::Settle, Ev::In(Inbound::Ack { sel: 65535, deco: d }), Ev::Settle, Ev::MakeStream { sel: 65535 }, Ev::DropStream { sel: 65535 }]),
                            3 => events.push(Ev::In(Inbound::Ack { sel: 0, deco: d })),
                            4 => events.push(Ev::In(Inbound::Publish { qos: 0, dup: false, retain: false, pid: 0, target: Target::Sub(65535), payload_len: 1, props: 0 })),
                            5 => events.push(Ev::In(Inbound::Publish { qos: 1, dup: false, retain: false, pid: 0, target: Target::Sub(0), payload_len: 1, props: 0 })),
                            _ => events.push(Ev::Settle),
                        }
                    }
                    // everything still outstanding is acknowledged in the end
                    for _ in 0..6 {
                        events.extend([Ev::Settle, Ev::In(Inbound::Ack { sel: 0, deco: d })]);
                    }
                    events.push(Ev::Settle);
                    Scenario { receive_max: None, max_packet_size: None, id_offset: 0, prologue: 0, events }
                }))
                .chain(across_wrap),
        )
    }

    fn assumptions() -> Vec<String> {
        vec![
            "conformant broker: acknowledgements only for packets that reached the wire, with their identifier and type, at most one per phase, PINGRESP in order".into(),
            "operations whose future was dropped are not judged here (C15 covers them); the others are".into(),
        ]
    }

    fn run(case: &Scenario) -> Outcome {
        // a quarter of the histories run with 2-byte partial writes and back-pressure, so that
        // both sources of the select loop can be ready at once
        let pressure = case_hash(case) % 4 == 0;
        let cfg = SimCfg {
            auto_settle: false,
            write: if pressure { WritePlan { per_call: 2, stall: Some(3) } } else { WritePlan::default() },
            ..Default::default()
        };
        let out = run(case, &cfg);
        let mut o = Outcome::ok();
        if pressure {
            o.class("write-back-pressure");
        }
        o.nontrivial = out.stats.max_outstanding_ops >= 2 && out.stats.ack_inversions >= 1;
        o.class(format!("max-outstanding-{}", out.stats.max_outstanding_ops.min(8)));
        if out.stats.ack_inversions > 0 {
            o.class("ack-out-of-order");
        }
        if out.stats.spurious_polls > 0 {
            o.class("spurious-polls");
        }
        for k in &out.stats.kinds {
            o.class(format!("kind-{k}"));
        }
        o.fail = failure_for(&out, &["C05/"]);
        // the publishes of the history, cut by a connection loss and resumed under a small Receive
        // Maximum: the acknowledgements arriving on the new connection complete the original futures
        if o.fail.is_none() {
            use super::misc::{run_c17, Ago, C17Case, Expiry, Step};
            let steps: Vec<Step> = case
                .events
                .iter()
                .filter_map(|e| match e {
                    Ev::Start { kind: OpKind::Pub1, .. } => Some(Step::Pub1),
                    Ev::Start { kind: OpKind::Pub2, .. } => Some(Step::Pub2),
                    Ev::In(Inbound::Ack { sel, .. }) => Some(if sel % 2 == 0 { Step::AckOldest } else { Step::AckNewest }),
                    _ => None,
                })
                .take(14)
                .collect();
            let h = case_hash(case);
            if steps.iter().filter(|s| matches!(s, Step::Pub1 | Step::Pub2)).count() >= 2 && (h % 4 == 0 || case.events.len() > 12) {
                let c17 = C17Case {
                    history: steps,
                    expiry: Expiry::Never,
                    connack_repeats: h % 2 == 0,
                    ago: Ago::Now,
                    queued_during_outage: false,
                    second_outage: 0,
                    failed_attempts: vec![],
                    via_auth: h % 5 == 0,
                    r2: 1 + (h / 2 % 3) as u16,
                };
                let mut o2 = Outcome::ok();
                if let Some(f) = run_c17(&c17, c17.history.len(), &mut o2) {
                    if f.sig == "C17/alive/original-future-not-completed" || f.sig.starts_with("PANIC/") {
                        o.fail = Some(Failure {
                            sig: if f.sig.starts_with("PANIC/") { f.sig.clone() } else { "C05/not-completed/on-the-resumed-connection".into() },
                            msg: format!("[the history's publishes, resumed after a connection loss under Receive Maximum {}] {}", c17.r2, f.msg),
                        });
                    }
                }
                o.class("also-resumed-after-a-connection-loss");
            }
        }
        if o.fail.is_none() {
            let h = case_hash(case);
            o.fail = c05_run_dropped_in_a_blocked_request((h % 4) as u8, h / 4 % 2 == 0);
            o.class("run-dropped-while-a-request-waits-for-the-writer");
        }
        o
    }
}

/// `run()` is dropped (a timeout or `select!` around it) while the request of one operation waits
/// for a writer that has accepted none of its bytes, then called again: the request is lost with
/// the dropped future (its caller learns so or keeps waiting), and the NEXT operation of the same
/// kind is written and completes with its own acknowledgement. kind: 0 ping, 1 unsubscribe,
/// 2 subscribe, 3 QoS 1 publish.
pub fn c05_run_dropped_in_a_blocked_request(kind: u8, first_dropped: bool) -> Option<Failure> {
    use crate::world::World;
    let plan = WritePlan::default();
    let mut w = World::new();
    if connect_and_run(&mut w, ConnectSpec::default(), &default_connack(), &plan).is_err() {
        return None;
    }
    let mut tr = Tracker::new();
    tr.skip_existing(&mut w);
    let spec = |tag: usize| match kind {
        0 => OpSpec::Ping,
        1 => OpSpec::Unsubscribe(tagged_unsubscribe(tag, 1)),
        2 => OpSpec::Subscribe(tagged_subscribe(tag, 1)),
        _ => OpSpec::Publish(tagged_publish(tag, 1)),
    };
    // the writer accepts nothing from now on
    let wire_before = w.wire_len();
    w.writer.grant(0);
    w.tick();
    let first = w.start_op(0, spec(1))?;
    settle(&mut w, &plan, true);
    if w.run_result.is_some() || !w.ctx_running() || w.wire_len() != wire_before {
        return None;
    }
    if !w.cancel_run() {
        return None;
    }
    if first_dropped {
        w.drop_op(first);
    }
    w.writer.unlimited();
    w.tick();
    if !w.start_run() {
        return None;
    }
    settle(&mut w, &plan, true);
    let second = w.start_op(0, spec(2))?;
    settle(&mut w, &plan, true);
    tr.update(&mut w);
    if let Some(p) = first_panic(&w) {
        return Some(Failure { sig: format!("PANIC/{}", panic_sig(&p)), msg: p });
    }
    if w.run_result.is_some() {
        return None; // C13's claim
    }
    let name = ["ping", "unsub", "sub", "pub1"][kind as usize % 4];
    if !tr.on_wire(second) && kind != 0 {
        return Some(Failure { sig: format!("C05/not-completed/{name}/after-run-dropped-in-a-blocked-write"), msg: "the request issued after run() was called again is not on the wire".into() });
    }
    let ack = match kind {
        0 => rc::Packet::Pingresp,
        1 => rc::Packet::Unsuback(rc::AckList { pid: tr.pid(second)?, reasons: vec![0], ..Default::default() }),
        2 => rc::Packet::Suback(rc::AckList { pid: tr.pid(second)?, reasons: vec![0], ..Default::default() }),
        _ => rc::Packet::Puback(rc::Ack { pid: tr.pid(second)?, ..Default::default() }),
    };
    feed_packet(&mut w, &ack, &rc::Form::canonical());
    settle(&mut w, &plan, true);
    let how = format!("run() dropped while the first {name} request waited for a writer that had accepted nothing; run() called again; a second {name} written and acknowledged{}", if first_dropped { " (the first future dropped as well)" } else { "" });
    if w.ops[second].res.is_none() {
        return Some(Failure { sig: format!("C05/not-completed/{name}/after-run-dropped-in-a-blocked-write"), msg: format!("the second operation is still pending after its acknowledgement ({how})") });
    }
    if !first_dropped && matches!(w.ops[first].res, Some(OpRes::Ok) | Some(OpRes::SubOk { .. }) | Some(OpRes::UnsubOk { .. })) {
        return Some(Failure { sig: format!("C05/completed-without-own-ack/{name}/after-run-dropped-in-a-blocked-write"), msg: format!("the first operation, whose request never reached the wire, completed with {:?} ({how})", w.ops[first].res) });
    }
    None
}

// ---------------------------------------------------------------------------------
// C06

pub struct C06;

impl Property for C06 {
    const ID: &'static str = "C06";
    const RULE: &'static str = "histories of QoS 0/1/2 publishes (plus subscribes/pings) and acknowledgements with every legal PUBACK/PUBREC/PUBCOMP reason, with the context polled but operation futures left unpolled for stretches (delayed QoS 2 second phase); the wire is strictly decoded. Non-trivial = a QoS 2 exchange reaching PUBCOMP or any reason >= 0x80";
    type Case = Scenario;

    fn strategy(tier: Tier) -> BoxedStrategy<Scenario> {
        let kinds = vec![
            (2, OpKind::Pub0),
            (3, OpKind::Pub1),
            (4, OpKind::Pub2),
            (1, OpKind::Sub(0)),
            (1, OpKind::Ping),
        ];
        // mostly quiescent stepping, sometimes only the context runs (delayed op polls)
        let ev = prop_oneof![
            5 => start(kinds).prop_map(|e| vec![e, Ev::Settle]),
            6 => ack(deco()).prop_map(|e| vec![e, Ev::Settle]),
            3 => ack(deco()).prop_map(|e| vec![e, Ev::PollCtx]),
            1 => start(vec![(1, OpKind::Pub2), (1, OpKind::Pub1)]).prop_map(|e| vec![e]),
            1 => Just(vec![Ev::PollCtx]),
            1 => sel().prop_map(|sel| vec![Ev::PollOp { sel }]),
            1 => Just(vec![Ev::ReenterRun]),
            // the caller gives up; the exchange on the wire goes on
            1 => sel().prop_map(|sel| vec![Ev::DropOp { sel }, Ev::Settle]),
        ];
        // also under a small Receive Maximum / Maximum Packet Size: local refusals are part of the
        // statement, and a refusal must never hit an exchange that is already on the wire
        let s = (vec(ev, 1..tier.pick(40, 120)), id_offset(6), prologue_variant_no_inbound(), rm_small(), max_pkt())
            .prop_map(|(evs, id_offset, prologue, receive_max, max_packet_size)| Scenario {
                receive_max,
                max_packet_size,
                id_offset,
                prologue,
                events: evs.into_iter().flatten().collect(),
            })
            .boxed();
        crowd(s)
    }

    fn cases(tier: Tier) -> u32 {
        tier.pick(20_000, 150_000)
    }

    /// publishes abandoned among 31..300 outstanding operations: the exchange on the wire goes on
    fn exhaustive(tier: Tier, worker: usize, workers: usize) -> Box<dyn Iterator<Item = Scenario>> {
        let mut v = crowded_cancellations(worker, workers, tier == Tier::Thorough);
        // exchanges outstanding on both sides of the 16-bit wrap of the identifier counter
        let d = Deco::default();
        let mut k = 0usize;
        for off in 65_529u32..=65_535 {
            for pattern in 0u8..4 {
                for newest_first in [false, true] {
                    k += 1;
                    if k % workers != worker {
                        continue;
                    }
                    let mut events = vec![];
                    for i in 0..8u8 {
                        let kind = match (pattern, i % 2) {
                            (0, _) | (2, 0) | (3, 1) => OpKind::Pub1,
                            _ => OpKind::Pub2,
                        };
                        events.push(Ev::Start { h: 0, kind, settle: false, solo: false });
                    }
                    events.push(Ev::Settle);
                    for _ in 0..16 {
                        events.push(Ev::In(Inbound::Ack { sel: if newest_first { 65535 } else { 0 }, deco: d }));
                        events.push(Ev::Settle);
                    }
                    v.push(Scenario { receive_max: None, max_packet_size: None, id_offset: off, prologue: 0, events });
                }
            }
        }
        // a refusal for quota that its caller sees late: the refused publish is polled again only
        // after the window has reopened and a later publish has been accepted
        for r in [2u16, 3] {
            for kinds in 0u8..8 {
                k += 1;
                if k % workers != worker {
                    continue;
                }
                let kind = |bit: u8| if kinds & bit != 0 { OpKind::Pub2 } else { OpKind::Pub1 };
                let start = |kind| Ev::Start { h: 0, kind, settle: false, solo: false };
                let mut events = vec![];
                for _ in 0..r {
                    events.push(start(OpKind::Pub1));
                }
                events.push(Ev::Settle);
                events.extend([start(kind(1)), Ev::PollOp { sel: 65535 }, Ev::PollCtx]); // refused, unseen
                for _ in 0..r {
                    events.extend([Ev::In(Inbound::Ack { sel: 0, deco: d }), Ev::PollCtx]);
                }
                events.extend([start(kind(2)), Ev::PollOp { sel: 65535 }, Ev::PollCtx]); // accepted
                events.push(Ev::Sweep); // the refusal is seen now
                events.extend([start(kind(4)), Ev::Settle]);
                for _ in 0..8 {
                    events.extend([Ev::In(Inbound::Ack { sel: 65535, deco: d }), Ev::Settle]);
                }
                v.push(Scenario { receive_max: Some(r), max_packet_size: None, id_offset: 0, prologue: 0, events });
            }
        }
        Box::new(v.into_iter())
    }

    fn assumptions() -> Vec<String> {
        vec!["conformant broker (as C05); local refusals (small Receive Maximum / Maximum Packet Size) are part of the histories and predicted by the model".into()]
    }

    fn run(case: &Scenario) -> Outcome {
        let pressure = case_hash(case) % 3 == 0;
        let cfg = SimCfg {
            auto_settle: false,
            write: if pressure { WritePlan { per_call: 3, stall: Some(2) } } else { WritePlan::default() },
            ..Default::default()
        };
        let out = run(case, &cfg);
        let mut o = Outcome::ok();
        if pressure {
            o.class("write-back-pressure");
        }
        o.nontrivial = out.stats.qos2_completed >= 1 || out.stats.failing_reasons >= 1;
        if out.stats.qos2_completed > 0 {
            o.class("qos2-completed");
        }
        if out.stats.failing_reasons > 0 {
            o.class("reason>=0x80");
        }
        for k in &out.stats.kinds {
            o.class(format!("kind-{k}"));
        }
        o.fail = failure_for(&out, &["C06/", "C05/wrong-completion/pub", "C05/not-completed/pub", "C01/"]);
        o
    }
}

// ---------------------------------------------------------------------------------
// C07

pub struct C07;

fn stream_events() -> BoxedStrategy<Ev> {
    prop_oneof![
        3 => sel().prop_map(|sel| Ev::MakeStream { sel }),
        4 => sel().prop_map(|sel| Ev::PollStream { sel }),
        1 => sel().prop_map(|sel| Ev::DropStream { sel }),
    ]
    .boxed()
}

impl Property for C07 {
    const ID: &'static str = "C07";
    const RULE: &'static str = "histories of subscribe calls, (late) SUBACKs, inbound PUBLISH of any QoS carrying one registered / two registered / an unknown / no subscription identifier, stream() calls, stream polls and drops, unsubscribes; quiescent stepping; every message is uniquely tagged. Non-trivial = >= 2 live subscriptions and a message arriving before SUBACK, before stream(), or after another stream was dropped";
    type Case = Scenario;

    fn strategy(tier: Tier) -> BoxedStrategy<Scenario> {
        let ev = prop_oneof![
            4 => sub_ready(),
            3 => one(start(vec![(5, OpKind::Sub(0)), (1, OpKind::Unsub(0)), (1, OpKind::Pub1)])),
            4 => one(ack(deco_ok())),
            12 => one(in_publish((0u8..3).boxed(), Just(0u16).boxed(), target_any())),
            // QoS 1 re-deliveries (same identifier, DUP set or not) are messages of their own
            2 => one(in_publish(Just(1u8).boxed(), (1u16..3).boxed(), target_any())),
            1 => Just(vec![Ev::In(Inbound::Pubrel { pid: 1, known: true })]),
            3 => one(sel().prop_map(|sel| Ev::MakeStream { sel })),
            4 => one(sel().prop_map(|sel| Ev::PollStream { sel })),
            3 => one(sel().prop_map(|sel| Ev::DropStream { sel })),
            1 => Just(vec![Ev::ReenterRun]),
        ]
        .boxed();
        let quiescent = scenario_v(rm_small(), ev, 1..tier.pick(40, 120));
        // fine-grained schedules: subscribes from several clones whose futures are polled
        // individually (the subscription identifier is taken at the first poll, the outcome seen
        // at a later one), some refused under a small Maximum Packet Size, interleaved with
        // messages for the subscriptions already on the wire
        let fine_ev = prop_oneof![
            5 => one(start(vec![(6, OpKind::Sub(0)), (1, OpKind::Unsub(0)), (1, OpKind::Pub1)])),
            1 => Just(vec![Ev::CloneHandle]),
            4 => Just(vec![Ev::PollCtx]),
            6 => one(sel().prop_map(|sel| Ev::PollOp { sel })),
            3 => one(ack(deco_ok())),
            8 => one(in_publish((0u8..3).boxed(), Just(0u16).boxed(), target_any())),
            3 => one(sel().prop_map(|sel| Ev::MakeStream { sel })),
            3 => one(sel().prop_map(|sel| Ev::PollStream { sel })),
            1 => one(sel().prop_map(|sel| Ev::DropStream { sel })),
            2 => Just(vec![Ev::Settle]),
            1 => sub_ready(),
        ]
        .boxed();
        let fine = (scenario_v(rm_small(), fine_ev, 1..tier.pick(50, 120)), prop_oneof![1 => Just(None), 1 => (18u32..42).prop_map(Some)])
            .prop_map(|(mut s, m)| {
                s.max_packet_size = m;
                s.events.insert(0, Ev::CloneHandle);
                // marks the schedule as fine-grained (see run)
                s.events.insert(0, Ev::PollCtx);
                s
            });
        prop_oneof![3 => quiescent, 1 => fine].boxed()
    }

    fn cases(tier: Tier) -> u32 {
        tier.pick(24_000, 180_000)
    }

    /// many subscriptions on one client, so that subscription identifiers cross the
    /// variable-byte-integer widths (127/128; 16383/16384 in the thorough tier)
    fn exhaustive(tier: Tier, worker: usize, workers: usize) -> Box<dyn Iterator<Item = Scenario>> {
        let mut v = vec![];
        let ns: Vec<usize> = if tier == Tier::Thorough { vec![140, 16_500] } else { vec![140] };
        for (k, n) in ns.into_iter().enumerate() {
            if k % workers != worker % workers.max(1) && workers > 1 && k != worker {
                continue;
            }
            let mut events = vec![];
            let ok = Deco { reason_string: true, ..Default::default() };
            for _ in 0..n {
                events.push(Ev::Start { h: 0, kind: OpKind::Sub(0), settle: false, solo: false });
                events.push(Ev::In(Inbound::Ack { sel: 65535, deco: ok }));
                events.push(Ev::MakeStream { sel: 65535 });
            }
            // first, last, around the 127/128 (and 16383/16384) boundary, and pairs
            let at = |i: usize| ((i * 65536) / n) as u16;
            let mut picks = vec![0usize, n - 1, 126, 127, 128, 129];
            if n > 16_390 {
                picks.extend([16_382, 16_383, 16_384, 16_385]);
            }
            for i in picks.iter().copied() {
                events.push(Ev::In(Inbound::Publish { qos: (i % 3) as u8, dup: false, retain: false, pid: 0, target: Target::Sub(at(i)), payload_len: 2, props: 0 }));
            }
            events.push(Ev::In(Inbound::Publish { qos: 1, dup: false, retain: false, pid: 0, target: Target::Two(at(127), at(128)), payload_len: 1, props: 0 }));
            events.push(Ev::In(Inbound::Publish { qos: 0, dup: false, retain: false, pid: 0, target: Target::Two(at(n - 1), at(0)), payload_len: 1, props: 0 }));
            v.push(Scenario { receive_max: None, max_packet_size: None, id_offset: 0, prologue: 0, events });
        }
        // one message for MANY subscriptions at once (overlapping filters): 8, 9, 10, 12, 20, 40
        // subscriptions with streams, a PUBLISH naming all of them in registration order, one naming
        // them in reverse, then one for the last subscription alone
        for (k, n) in [8usize, 9, 10, 12, 20, 40].into_iter().enumerate() {
            if k % workers != worker % workers.max(1) {
                continue;
            }
            let ok = Deco::default();
            let mut events = vec![];
            for _ in 0..n {
                events.push(Ev::Start { h: 0, kind: OpKind::Sub(0), settle: false, solo: false });
                events.push(Ev::In(Inbound::Ack { sel: 65535, deco: ok }));
                events.push(Ev::MakeStream { sel: 65535 });
            }
            for (q, t) in [(0u8, Target::All), (1, Target::AllReversed), (2, Target::All), (1, Target::Sub(65535))] {
                events.push(Ev::In(Inbound::Publish { qos: q, dup: false, retain: false, pid: 0, target: t, payload_len: 2, props: 0 }));
            }
            v.push(Scenario { receive_max: None, max_packet_size: None, id_offset: 0, prologue: 0, events });
        }
        // a consumer that lags: backlogs around every power of two up to 4096 (8192 in the
        // thorough tier) build up while the stream is not polled - before and after stream() is
        // called - next to a second subscription that keeps up
        let mut sizes = vec![];
        let top = if tier == Tier::Thorough { 13 } else { 12 };
        for p in 5..=top {
            for d in [-1i64, 0, 1, 2] {
                sizes.push(((1i64 << p) + d) as usize);
            }
        }
        for (k, n) in sizes.into_iter().enumerate() {
            if k % workers != worker {
                continue;
            }
            let ok = Deco::default();
            let mut events = vec![
                Ev::Start { h: 0, kind: OpKind::Sub(0), settle: false, solo: false },
                Ev::In(Inbound::Ack { sel: 65535, deco: ok }),
                Ev::Start { h: 0, kind: OpKind::Sub(0), settle: false, solo: false },
                Ev::In(Inbound::Ack { sel: 65535, deco: ok }),
                Ev::MakeStream { sel: 65535 }, // the second subscription's stream
            ];
            let early_stream = k % 2 == 0;
            if early_stream {
                events.push(Ev::MakeStream { sel: 0 });
            }
            for i in 0..n {
                events.push(Ev::In(Inbound::Publish { qos: (i % 3) as u8, dup: false, retain: false, pid: 0, target: Target::Sub(0), payload_len: 1, props: 0 }));
                if i % 64 == 0 {
                    events.push(Ev::In(Inbound::Publish { qos: 0, dup: false, retain: false, pid: 0, target: Target::Sub(65535), payload_len: 1, props: 0 }));
                    events.push(Ev::PollStream { sel: 0 });
                }
            }
            if !early_stream {
                events.push(Ev::MakeStream { sel: 0 });
            }
            // one more message after the backlog, then everything is drained at the end
            events.push(Ev::In(Inbound::Publish { qos: 1, dup: false, retain: false, pid: 0, target: Target::Sub(0), payload_len: 2, props: 0 }));
            v.push(Scenario { receive_max: None, max_packet_size: None, id_offset: 0, prologue: 0, events });
        }
        Box::new(v.into_iter())
    }

    fn assumptions() -> Vec<String> {
        vec![
            "inbound packet identifiers are unique per message here (re-deliveries are C09's domain)".into(),
            "a stream whose receiver was dropped (cancelled subscribe future, dropped stream) may lose what it had not yielded".into(),
        ]
    }

    fn run(case: &Scenario) -> Outcome {
        let fine = matches!(case.events.first(), Some(Ev::PollCtx));
        let cfg = SimCfg { auto_settle: !fine, ..Default::default() };
        let out = run(case, &cfg);
        let mut o = Outcome::ok();
        if fine {
            o.class("fine-grained-schedule");
        }
        let s = &out.stats;
        o.nontrivial = s.live_subs_max >= 2 && (s.msg_before_suback + s.msg_before_stream + s.msg_after_other_dropped) > 0;
        if s.msg_before_suback > 0 {
            o.class("msg-before-suback");
        }
        if s.msg_before_stream > 0 {
            o.class("msg-before-stream()");
        }
        if s.msg_after_other_dropped > 0 {
            o.class("msg-after-other-stream-dropped");
        }
        if s.msg_multi_id > 0 {
            o.class("multiple-identifiers-in-one-publish");
        }
        o.class(format!("live-subs-{}", s.live_subs_max.min(6)));
        o.fail = failure_for(&out, &["C07/"]);
        if o.fail.is_none() {
            // QoS 2 messages whose exchange spans a reconnection of a continuing session are
            // yielded exactly once too (the stream outlives the connection)
            let h = case_hash(case);
            if let Some(f) = c09_across_reconnection((h % 3) as u8, (h / 3 % 3) as u8, 1 + (h / 9 % 3) as usize, (h / 27 % 5) as u8) {
                if f.sig.starts_with("C09/stream/qos2-redelivery-yielded-twice") {
                    o.fail = Some(Failure { sig: "C07/stream/extra-message/across-reconnection".into(), msg: f.msg });
                } else if f.sig.starts_with("C09/stream/new-message") {
                    o.fail = Some(Failure { sig: "C07/stream/message-lost/across-reconnection".into(), msg: f.msg });
                } else if f.sig.starts_with("PANIC/") {
                    o.fail = Some(f);
                }
            }
            o.class("exchange-spanning-a-reconnection");
            if o.fail.is_none() {
                let n_old = 1 + (h / 7 % 3) as usize;
                o.fail = c07_after_expired_session(n_old, (h / 21) as usize % n_old, 1 + (h / 63 % 3) as usize);
                o.class("subscriptions-after-an-expired-session");
            }
            if o.fail.is_none() {
                o.fail = c07_across_resumption((h / 135 % 4) as u8);
                o.class("subscriptions-across-a-resumption");
            }
        }
        o
    }
}

// ---------------------------------------------------------------------------------
// C08

pub struct C08;

impl Property for C08 {
    const ID: &'static str = "C08";
    const RULE: &'static str = "sequences of inbound PUBLISH (QoS 0/1/2, DUP 0/1, fresh identifiers, subscription identifier registered / dropped / never registered / absent) and PUBREL (known and unknown identifiers) interleaved with client operations, subscribes, stream drops; the PUBACK/PUBREC/PUBCOMP subsequence of the strictly decoded wire is compared one-to-one, in order, with the arrivals. Non-trivial = >= 1 QoS>0 PUBLISH whose subscription identifier is absent, unknown, or whose stream is gone";
    type Case = Scenario;

    fn strategy(tier: Tier) -> BoxedStrategy<Scenario> {
        let ev = prop_oneof![
            2 => sub_ready(),
            3 => one(start(vec![(3, OpKind::Sub(0)), (1, OpKind::Pub1), (1, OpKind::Pub2), (1, OpKind::Ping)])),
            3 => one(ack(deco())),
            10 => one(in_publish((0u8..3).boxed(), Just(0u16).boxed(), target_any())),
            // a small identifier pool: the same QoS 2 PUBLISH sent again before its PUBREL
            // must be answered with PUBREC again
            3 => one(in_publish(Just(2u8).boxed(), (1u16..4).boxed(), target_any())),
            3 => one((1u16..5, any::<bool>()).prop_map(|(pid, known)| Ev::In(Inbound::Pubrel { pid, known }))),
            // a PUBREL sent twice in a row (the broker lost the PUBCOMP)
            1 => (1u16..5).prop_map(|pid| vec![
                Ev::In(Inbound::Publish { qos: 2, dup: false, retain: false, pid, target: Target::Sub(0), payload_len: 0, props: 0 }),
                Ev::In(Inbound::Pubrel { pid, known: false }),
                Ev::In(Inbound::Pubrel { pid, known: false }),
            ]),
            2 => one(stream_events()),
            1 => one(sel().prop_map(|sel| Ev::DropOp { sel })),
            1 => Just(vec![Ev::ReenterRun]),
            // several inbound packets arriving in ONE read (or cut arbitrarily)
            3 => (vec((0u8..3, any::<bool>(), target_any(), 0u16..6), 2..6), crate::gen::chunk_plan(), any::<bool>()).prop_map(|(items, plan, sb)| vec![Ev::Burst {
                items: items.into_iter().map(|(qos, dup, target, payload_len)| Inbound::Publish { qos, dup, retain: false, pid: 0, target, payload_len, props: 0 }).collect(),
                plan,
                settle_between: sb,
            }]),
        ]
        .boxed();
        // the server's Receive Maximum limits the client's publishes, never what it must acknowledge
        scenario_v(rm_small(), ev, 1..tier.pick(40, 120))
    }

    fn cases(tier: Tier) -> u32 {
        tier.pick(20_000, 150_000)
    }

    /// a consumer that lags: every message must still be acknowledged when hundreds or thousands
    /// are waiting in a stream that is not polled
    fn exhaustive(tier: Tier, worker: usize, workers: usize) -> Box<dyn Iterator<Item = Scenario>> {
        let mut v = vec![];
        let top = if tier == Tier::Thorough { 13 } else { 11 };
        let mut k = 0;
        for p in 6..=top {
            for d in [-1i64, 0, 1, 2] {
                k += 1;
                if k % workers != worker {
                    continue;
                }
                let n = ((1i64 << p) + d) as usize;
                let mut events = sub_ready_events();
                for i in 0..n {
                    events.push(Ev::In(Inbound::Publish { qos: if i % 7 == 0 { 1 } else { 0 }, dup: false, retain: false, pid: 0, target: Target::Sub(0), payload_len: 1, props: 0 }));
                }
                for q in [1u8, 2, 1, 2] {
                    events.push(Ev::In(Inbound::Publish { qos: q, dup: false, retain: false, pid: 0, target: Target::Sub(0), payload_len: 2, props: 0 }));
                }
                v.push(Scenario { receive_max: None, max_packet_size: None, id_offset: 0, prologue: 0, events });
            }
        }
        Box::new(v.into_iter())
    }

    fn assumptions() -> Vec<String> {
        vec!["only type, identifier, order and well-formedness of the acknowledgements are compared; the reason code may be any value the standard allows".into()]
    }

    fn run(case: &Scenario) -> Outcome {
        let pressure = case_hash(case) % 3 == 0;
        let cfg = SimCfg {
            write: if pressure { WritePlan { per_call: 1, stall: Some(3) } } else { WritePlan::default() },
            ..Default::default()
        };
        let out = run(case, &cfg);
        let mut o = Outcome::ok();
        if pressure {
            o.class("write-back-pressure");
        }
        if out.stats.multi_packet_reads > 0 {
            o.class("several-inbound-packets-in-one-read");
        }
        o.nontrivial = out.stats.inbound_qos_gt0_unroutable >= 1;
        if out.stats.inbound_qos_gt0_unroutable > 0 {
            o.class("qos>0-without-live-subscription");
        }
        if out.stats.dropped_streams > 0 {
            o.class("stream-dropped");
        }
        // a run() that ended because of a cancellation defect is C15's finding
        o.fail = failure_for(&out, &["C08/"]);
        if o.fail.is_none() {
            // what was received while run() was serving is acknowledged even if the very next
            // packet of the same read ends run()
            let h = case_hash(case);
            o.fail = c08_acks_before_a_fatal_packet((h % 4) as u8, (h / 4 % 3) as u8);
            o.class("acknowledgements-owed-before-a-fatal-packet");
        }
        if o.fail.is_none() {
            // inbound QoS 2 exchanges open across a reconnection / resumption: one PUBREC per
            // re-delivery on the new connection, and nothing before it
            let h = case_hash(case);
            o.fail = c09_across_reconnection((h % 3) as u8, (h / 3 % 3) as u8, 1 + (h / 9 % 3) as usize, (h / 27 % 5) as u8).filter(|f| f.sig.starts_with("C08/") || f.sig.starts_with("PANIC/"));
            o.class("inbound-exchanges-across-a-reconnection");
        }
        if o.fail.is_none() {
            let h = case_hash(case);
            o.fail = c08_own_connect_limits_reached([1u16, 2, 5, 65535][(h / 3 % 4) as usize], [1u16, 2, 3, 8][(h / 12 % 4) as usize]);
            o.class("the-client's-own-connect-limits-reached");
        }
        o
    }
}

/// The broker goes exactly as far as the client's own CONNECT allows: Topic Alias values up to the
/// announced Topic Alias Maximum `n`, and `k` = Receive Maximum inbound QoS 2 exchanges open at
/// once, one of which is then re-delivered before its PUBREL. Every PUBLISH gets its PUBREC (the
/// re-delivery a second one), every PUBREL its PUBCOMP, a QoS 1 PUBLISH its PUBACK; run() goes on.
pub fn c08_own_connect_limits_reached(n: u16, k: u16) -> Option<Failure> {
    use crate::world::World;
    let plan = WritePlan::default();
    let mut w = World::new();
    let spec = ConnectSpec { topic_alias_maximum: Some(n), receive_maximum: Some(k), ..Default::default() };
    if connect_and_run(&mut w, spec, &default_connack(), &plan).is_err() {
        return None;
    }
    w.sync_wire();
    let before = w.pkts.len();
    let how = format!("CONNECT announced Topic Alias Maximum {n} and Receive Maximum {k}");
    let publish = |qos: u8, pid: u16, alias: u16, dup: bool| {
        rc::encode(&rc::Packet::Publish(rc::Publish { qos, dup, pid: Some(pid), topic: format!("c08/alias/{alias}"), topic_alias: Some(alias), payload: vec![1], ..Default::default() }), &rc::Form::canonical())
    };
    let count = |w: &mut World, f: &dyn Fn(&rc::Packet) -> bool| -> usize {
        w.sync_wire();
        w.pkts[before..].iter().filter(|p| p.decoded.as_ref().map(|d| f(d)).unwrap_or(false)).count()
    };
    for i in 0..k {
        w.tick();
        w.reader.feed(publish(2, 100 + i, n - (i % n.min(3)), false));
        settle(&mut w, &plan, true);
    }
    if let Some(p) = first_panic(&w) {
        return Some(Failure { sig: format!("PANIC/{}", panic_sig(&p)), msg: p });
    }
    let recs = count(&mut w, &|d| matches!(d, rc::Packet::Pubrec(_)));
    if recs != k as usize {
        return Some(Failure { sig: "C08/missing-pubrec/own-connect-limits".into(), msg: format!("{recs} PUBREC for {k} QoS 2 PUBLISH packets carrying Topic Alias values up to {n} (run: {:?}; {how})", w.run_result) });
    }
    // the first one again, before its PUBREL
    w.tick();
    w.reader.feed(publish(2, 100, n, true));
    settle(&mut w, &plan, true);
    let recs = count(&mut w, &|d| matches!(d, rc::Packet::Pubrec(_)));
    if recs != k as usize + 1 {
        return Some(Failure { sig: "C08/missing-pubrec/re-delivery-into-a-full-window".into(), msg: format!("{k} inbound QoS 2 exchanges open (the client's own Receive Maximum), the first PUBLISH sent again before its PUBREL: {} PUBREC in all, run: {:?} ({how})", recs, w.run_result) });
    }
    for i in 0..k {
        w.tick();
        w.reader.feed(rc::encode(&rc::Packet::Pubrel(rc::Ack { pid: 100 + i, ..Default::default() }), &rc::Form::short()));
        settle(&mut w, &plan, true);
    }
    let comps = count(&mut w, &|d| matches!(d, rc::Packet::Pubcomp(_)));
    if comps != k as usize {
        return Some(Failure { sig: "C08/missing-pubcomp/own-connect-limits".into(), msg: format!("{comps} PUBCOMP for {k} PUBREL (run: {:?}; {how})", w.run_result) });
    }
    w.tick();
    w.reader.feed(publish(1, 7, n, false));
    settle(&mut w, &plan, true);
    let acks = count(&mut w, &|d| matches!(d, rc::Packet::Puback(_)));
    if acks != 1 {
        return Some(Failure { sig: "C08/missing-puback/own-connect-limits".into(), msg: format!("{acks} PUBACK for a QoS 1 PUBLISH with Topic Alias {n} (run: {:?}; {how})", w.run_result) });
    }
    None
}

/// One read carries a QoS 1 PUBLISH, a QoS 2 PUBLISH, a PUBREL and then a packet that ends run()
/// (server DISCONNECT 0x8b / reason 0, a CONNACK, or bytes that do not decode).
fn c08_acks_before_a_fatal_packet(fatal: u8, chunking: u8) -> Option<Failure> {
    use crate::world::World;
    let plan = WritePlan::default();
    let mut w = World::new();
    if connect_and_run(&mut w, ConnectSpec::default(), &default_connack(), &plan).is_err() {
        return None;
    }
    w.sync_wire();
    let before = w.pkts.len();
    let mut bytes = vec![];
    let publish = |qos: u8, pid: u16| rc::encode(&rc::Packet::Publish(rc::Publish { qos, pid: Some(pid), topic: "c08/burst".into(), payload: vec![1, 2], ..Default::default() }), &rc::Form::canonical());
    bytes.extend(publish(1, 21));
    bytes.extend(publish(2, 22));
    bytes.extend(rc::encode(&rc::Packet::Pubrel(rc::Ack { pid: 23, ..Default::default() }), &rc::Form::short()));
    let name = match fatal {
        0 => {
            bytes.extend(rc::encode(&rc::Packet::Disconnect(rc::Disconnect { reason: 0x8b, ..Default::default() }), &rc::Form::canonical()));
            "a server DISCONNECT (0x8b)"
        }
        1 => {
            bytes.extend(rc::encode(&rc::Packet::Disconnect(rc::Disconnect::default()), &rc::Form::short()));
            "a server DISCONNECT (reason 0)"
        }
        2 => {
            bytes.extend(rc::encode(&rc::Packet::Connack(rc::Connack::default()), &rc::Form::canonical()));
            "a CONNACK"
        }
        _ => {
            bytes.extend([0x00, 0x00]);
            "two bytes that are no packet"
        }
    };
    w.tick();
    match chunking {
        0 => w.reader.feed(bytes),
        1 => {
            // everything queued before the context is polled, in two reads
            let k = bytes.len() / 2;
            w.reader.feed(bytes[..k].to_vec());
            w.reader.feed(bytes[k..].to_vec());
        }
        _ => {
            for c in bytes.chunks(5) {
                w.reader.feed(c.to_vec());
            }
        }
    }
    settle(&mut w, &plan, true);
    if let Some(p) = first_panic(&w) {
        return Some(Failure { sig: format!("PANIC/{}", panic_sig(&p)), msg: p });
    }
    if w.run_result.is_none() {
        return None; // C13 judges whether run() ends
    }
    w.sync_wire();
    let acks: Vec<(u8, u16)> = w.pkts[before..]
        .iter()
        .filter_map(|p| match &p.decoded {
            Ok(rc::Packet::Puback(a)) => Some((4, a.pid)),
            Ok(rc::Packet::Pubrec(a)) => Some((5, a.pid)),
            Ok(rc::Packet::Pubcomp(a)) => Some((7, a.pid)),
            _ => None,
        })
        .collect();
    let want = vec![(4u8, 21u16), (5, 22), (7, 23)];
    if acks != want {
        let what = if acks.len() < want.len() { "missing" } else { "wrong" };
        return Some(Failure {
            sig: format!("C08/{what}-acknowledgements-before-a-fatal-packet"),
            msg: format!(
                "PUBLISH QoS 1 (21), PUBLISH QoS 2 (22), PUBREL (23) followed by {name}, all readable at once: run() = {:?}; acknowledgements on the wire {acks:?}, owed {want:?}",
                w.run_result
            ),
        });
    }
    None
}

// ---------------------------------------------------------------------------------
// C09

pub struct C09;

/// few identifiers, including pairs that collide when truncated to 8 bits (1/257, 2/258)
fn c09_pid() -> BoxedStrategy<u16> {
    // 1..6 are also the identifiers the client's own operations of these histories use: the two
    // number spaces are independent
    prop::sample::select(vec![1u16, 2, 3, 2, 3, 4, 5, 6, 257, 258, 65535]).boxed()
}

fn c09_prologue() -> Vec<Ev> {
    vec![
        Ev::Start { h: 0, kind: OpKind::Sub(0), settle: false, solo: false },
        Ev::In(Inbound::Ack { sel: 0, deco: Deco::default() }),
        Ev::MakeStream { sel: 0 },
    ]
}

/// n inbound QoS 2 exchanges carried through (PUBLISH, PUBREL), on identifiers 3..9
fn c09_completed_exchanges(n: usize) -> Vec<Ev> {
    let mut v = Vec::with_capacity(2 * n);
    for i in 0..n {
        let pid = 3 + (i % 7) as u16;
        v.push(Ev::In(Inbound::Publish { qos: 2, dup: false, retain: false, pid, target: Target::Sub(0), payload_len: 0, props: 0 }));
        v.push(Ev::In(Inbound::Pubrel { pid, known: false }));
    }
    v
}

impl Property for C09 {
    const ID: &'static str = "C09";
    const RULE: &'static str = "sequences over {PUBLISH(QoS 2, identifier in {1..6,257,258,65535}, DUP 0/1), PUBREL(identifier)} to a live subscription, interleaved with other traffic (inbound QoS 0/1, the client's own QoS 1/2 publishes, subscribes, unsubscribes and their acknowledgements using the same identifier values); exhaustive over a 6-symbol alphabet on 2 identifiers to a bounded depth. The model's awaiting-PUBREL set decides which PUBLISH is a re-delivery. Non-trivial = a re-delivery before PUBREL and a reuse of the identifier after PUBREL both occur";
    type Case = Scenario;

    fn strategy(tier: Tier) -> BoxedStrategy<Scenario> {
        let ev = prop_oneof![
            10 => in_publish(Just(2u8).boxed(), c09_pid(), Just(Target::Sub(0)).boxed()),
            5 => c09_pid().prop_map(|pid| Ev::In(Inbound::Pubrel { pid, known: false })),
            1 => in_publish((0u8..2).boxed(), Just(0u16).boxed(), Just(Target::Sub(0)).boxed()),
            // QoS 1 traffic reusing the same identifier values must not disturb the QoS 2 state
            1 => in_publish(Just(1u8).boxed(), c09_pid(), Just(Target::Sub(0)).boxed()),
            1 => in_publish(Just(2u8).boxed(), c09_pid(), prop_oneof![Just(Target::None), Just(Target::Unknown)].boxed()),
            // the client's own exchanges (same identifier values, other direction) run alongside
            3 => start(vec![(1, OpKind::Pub1), (3, OpKind::Pub2), (1, OpKind::Sub(1)), (1, OpKind::Unsub(0)), (1, OpKind::Ping)]),
            4 => ack(deco()),
            1 => Just(Ev::PollStream { sel: 0 }),
        ]
        .boxed();
        // the server's Receive Maximum (small here) limits the client's publishes only: any number
        // of inbound exchanges may be open
        // sometimes after a long history of completed exchanges
        (vec(ev, 1..tier.pick(30, 80)), rm_small(), prologue_variant(), prop_oneof![7 => Just(0usize), 1 => 100usize..400])
            .prop_map(|(evs, receive_max, prologue, completed)| {
                let mut events = c09_prologue();
                events.extend(c09_completed_exchanges(completed));
                events.extend(evs);
                Scenario { receive_max, max_packet_size: None, id_offset: 0, prologue: prologue & 127, events }
            })
            .boxed()
    }

    fn cases(tier: Tier) -> u32 {
        tier.pick(10_000, 100_000)
    }

    fn exhaustive(tier: Tier, worker: usize, workers: usize) -> Box<dyn Iterator<Item = Scenario>> {
        let p = |pid: u16, dup: bool| {
            Ev::In(Inbound::Publish { qos: 2, dup, retain: false, pid, target: Target::Sub(0), payload_len: 0, props: 0 })
        };
        let alphabet = vec![
            p(1, false),
            p(1, true),
            p(2, false),
            p(2, true),
            Ev::In(Inbound::Pubrel { pid: 1, known: false }),
            Ev::In(Inbound::Pubrel { pid: 2, known: false }),
        ];
        // the client's own QoS 2 exchange runs on the same identifier value (the SUBSCRIBE of the
        // prologue took 1, the first publish gets 2)
        let both = vec![
            p(2, false),
            p(2, true),
            Ev::In(Inbound::Pubrel { pid: 2, known: false }),
            Ev::Start { h: 0, kind: OpKind::Pub2, settle: false, solo: false },
            Ev::In(Inbound::Ack { sel: 0, deco: Deco::default() }),
        ];
        let mk = |evs: Vec<Ev>| {
            let mut events = c09_prologue();
            events.extend(evs);
            Scenario { receive_max: None, max_packet_size: None, id_offset: 0, prologue: 0, events }
        };
        let small_r = move |evs: Vec<Ev>| {
            let mut s = mk(evs);
            s.receive_max = Some(1);
            s
        };
        // the same alphabet after n completed exchanges
        let depth = tier.pick(3, 4);
        let after_history = [1usize, 2, 31, 32, 63, 64, 126, 127, 128, 129, 255, 256, 511, 1023].into_iter().flat_map({
            let alphabet = alphabet.clone();
            move |n| {
                sequences(alphabet.clone(), depth, worker, workers).map(move |evs| {
                    let mut events = c09_prologue();
                    events.extend(c09_completed_exchanges(n));
                    events.extend(evs);
                    Scenario { receive_max: None, max_packet_size: None, id_offset: 0, prologue: 0, events }
                })
            }
        });
        Box::new(
            sequences(alphabet.clone(), tier.pick(6, 8), worker, workers)
                .map(mk)
                .chain(sequences(both, tier.pick(7, 9), worker, workers).map(mk))
                .chain(sequences(alphabet, tier.pick(5, 7), worker, workers).map(small_r))
                .chain(after_history),
        )
    }

    fn assumptions() -> Vec<String> {
        vec!["a PUBLISH whose identifier has been answered with PUBREC and not yet released is a re-delivery whatever its DUP flag; after PUBREL the identifier denotes a new message".into()]
    }

    fn run(case: &Scenario) -> Outcome {
        let cfg = SimCfg::default();
        let out = run(case, &cfg);
        let mut o = Outcome::ok();
        o.nontrivial = out.stats.redeliveries >= 1 && out.stats.reuse_after_rel >= 1;
        if out.stats.redeliveries > 0 {
            o.class("redelivery-before-pubrel");
        }
        if out.stats.reuse_after_rel > 0 {
            o.class("identifier-reused-after-pubrel");
        }
        o.fail = failure_for(&out, &["C09/", "C07/stream/message-lost", "C08/missing-pubrec"]);
        if o.fail.is_none() {
            // an exchange that spans a reconnection of a session that continues
            let h = case_hash(case);
            o.fail = c09_across_reconnection((h % 3) as u8, (h / 3 % 3) as u8, 1 + (h / 9 % 3) as usize, (h / 27 % 5) as u8);
            o.class("exchange-spanning-a-reconnection");
        }
        if o.fail.is_none() {
            // a re-delivery into a window that is full by the client's own Receive Maximum
            let h = case_hash(case);
            o.fail = c08_own_connect_limits_reached([3u16, 65535][(h / 5 % 2) as usize], [1u16, 2, 3, 8][(h / 10 % 4) as usize]).filter(|f| f.sig.starts_with("C08/missing-pubrec") || f.sig.starts_with("PANIC/"));
            o.class("re-delivery-into-a-full-window");
        }
        o
    }
}

/// Subscriptions of a session that is resumed (hook, session alive) keep their streams: one
/// subscribe is still waiting for its SUBACK (or was cancelled) when the connection is lost, another
/// is acknowledged and streaming, in either registration order.
pub fn c07_across_resumption(variant: u8) -> Option<Failure> {
    use crate::world::World;
    let plan = WritePlan::default();
    let mut w = World::new();
    let spec = ConnectSpec { session_expiry: Some(3600), client_id: Some("c07r".into()), ..Default::default() };
    if connect_and_run(&mut w, spec.clone(), &rc::Connack::default(), &plan).is_err() {
        return None;
    }
    let mut tr = Tracker::new();
    tr.skip_existing(&mut w);
    let pending_first = variant & 1 == 0;
    let cancel_pending = variant & 2 != 0;
    let mut sub = |w: &mut World, tr: &mut Tracker, tag: usize, acked: bool| -> Option<(usize, u32)> {
        let op = w.start_op(0, OpSpec::Subscribe(tagged_subscribe(tag, 1)))?;
        settle(w, &plan, true);
        tr.update(w);
        let pid = tr.pid(op)?;
        let sid = tr.sub_id(op)?;
        if acked {
            feed_packet(w, &rc::Packet::Suback(rc::AckList { pid, reasons: vec![1], ..Default::default() }), &rc::Form::canonical());
            settle(w, &plan, true);
        }
        Some((op, sid))
    };
    let (live_op, live_sid, pend_op);
    if pending_first {
        let p = sub(&mut w, &mut tr, 1, false)?;
        let l = sub(&mut w, &mut tr, 2, true)?;
        live_op = l.0;
        live_sid = l.1;
        pend_op = p.0;
    } else {
        let l = sub(&mut w, &mut tr, 1, true)?;
        let p = sub(&mut w, &mut tr, 2, false)?;
        live_op = l.0;
        live_sid = l.1;
        pend_op = p.0;
    }
    let stream = w.make_stream(live_op)?;
    if cancel_pending {
        w.drop_op(pend_op);
        settle(&mut w, &plan, true);
    }
    let msg = |k: u8| rc::encode(&rc::Packet::Publish(rc::Publish { qos: 0, topic: "c07r/t".into(), payload: vec![k], subscription_ids: vec![live_sid], ..Default::default() }), &rc::Form::canonical());
    w.tick();
    w.reader.feed(msg(1));
    settle(&mut w, &plan, true);
    w.drain_stream(stream);
    if w.streams[stream].items.len() != 1 {
        return None;
    }
    w.tick();
    w.reader.set_eof();
    settle(&mut w, &plan, true);
    if w.run_result.is_none() || !w.mark_disconnected(5) || !w.set_up_again() {
        return None;
    }
    let spec2 = ConnectSpec { clean_start: Some(false), ..spec };
    if connect_and_run(&mut w, spec2, &rc::Connack { session_present: true, ..Default::default() }, &plan).is_err() {
        return None;
    }
    w.tick();
    w.reader.feed(msg(2));
    settle(&mut w, &plan, true);
    if let Some(p) = first_panic(&w) {
        return Some(Failure { sig: format!("PANIC/{}", panic_sig(&p)), msg: p });
    }
    w.drain_stream(stream);
    let how = format!(
        "the subscribe still waiting for its SUBACK was issued {} the streaming one{}",
        if pending_first { "before" } else { "after" },
        if cancel_pending { " and its future had been dropped" } else { "" }
    );
    if w.run_result.is_some() {
        return None;
    }
    if w.streams[stream].ended {
        return Some(Failure {
            sig: "C07/stream-ended-while-context-alive/across-resumption".into(),
            msg: format!("the stream of an acknowledged subscription ended when its session was resumed on a new connection ({how})"),
        });
    }
    if w.streams[stream].items.len() != 2 {
        return Some(Failure {
            sig: "C07/stream/message-lost/across-resumption".into(),
            msg: format!("a message for an acknowledged subscription arriving on the resumed connection was not yielded ({} items; {how})", w.streams[stream].items.len()),
        });
    }
    None
}

/// The session of the earlier connection has EXPIRED when the Context connects again (hook: lost
/// longer ago than the Session Expiry Interval): its subscriptions are gone. `n_old` subscriptions
/// existed then and each got a message (the last one to subscription `last`); `n_new` subscriptions
/// are made on the new connection; the first application message of the new connection carries an
/// identifier of the OLD session and must reach no stream, the next one addresses a new
/// subscription and reaches exactly that one.
pub fn c07_after_expired_session(n_old: usize, last: usize, n_new: usize) -> Option<Failure> {
    use crate::world::World;
    let plan = WritePlan::default();
    let mut w = World::new();
    let spec = ConnectSpec { session_expiry: Some(2), client_id: Some("c07x".into()), ..Default::default() };
    if connect_and_run(&mut w, spec.clone(), &rc::Connack::default(), &plan).is_err() {
        return None;
    }
    let mut tr = Tracker::new();
    tr.skip_existing(&mut w);
    let mut sub = |w: &mut World, tr: &mut Tracker, tag: usize| -> Option<(usize, u32)> {
        let op = w.start_op(0, OpSpec::Subscribe(tagged_subscribe(tag, 1)))?;
        settle(w, &plan, true);
        tr.update(w);
        let pid = tr.pid(op)?;
        let sid = tr.sub_id(op)?;
        feed_packet(w, &rc::Packet::Suback(rc::AckList { pid, reasons: vec![0], ..Default::default() }), &rc::Form::canonical());
        settle(w, &plan, true);
        let stream = w.make_stream(op)?;
        Some((stream, sid))
    };
    let msg = |sid: u32, k: u8| rc::encode(&rc::Packet::Publish(rc::Publish { qos: 0, topic: "c07x/t".into(), payload: vec![k], subscription_ids: vec![sid], ..Default::default() }), &rc::Form::canonical());
    let mut old = vec![];
    for k in 0..n_old {
        old.push(sub(&mut w, &mut tr, k)?);
    }
    for k in (0..n_old).filter(|k| *k != last).chain([last]) {
        w.tick();
        w.reader.feed(msg(old[k].1, k as u8));
        settle(&mut w, &plan, true);
    }
    w.tick();
    w.reader.set_eof();
    settle(&mut w, &plan, true);
    if w.run_result.is_none() || !w.mark_disconnected(10) || !w.set_up_again() {
        return None;
    }
    let spec2 = ConnectSpec { clean_start: Some(false), ..spec };
    if connect_and_run(&mut w, spec2, &rc::Connack::default(), &plan).is_err() {
        return None;
    }
    tr.skip_existing(&mut w);
    let mut new = vec![];
    for k in 0..n_new {
        let Some(x) = sub(&mut w, &mut tr, 100 + k) else {
            return Some(Failure { sig: "HARNESS/c07-expired-session/subscribe-not-tracked".into(), msg: format!("new subscribe {k}: panics {:?}, run {:?}", w.panics, w.run_result) });
        };
        new.push(x);
    }
    drop(sub);
    // a message carrying an identifier of the expired session
    w.tick();
    w.reader.feed(msg(old[last].1, 200));
    settle(&mut w, &plan, true);
    if let Some(p) = first_panic(&w) {
        return Some(Failure { sig: format!("PANIC/{}", panic_sig(&p)), msg: p });
    }
    if w.run_result.is_some() {
        return None; // C13's claim
    }
    let how = format!("{n_old} subscription(s) in the expired session, the last message went to number {last}; {n_new} new subscription(s)");
    for (k, (stream, sid)) in new.iter().enumerate() {
        w.drain_stream(*stream);
        if !w.streams[*stream].items.is_empty() {
            return Some(Failure {
                sig: "C07/stream/extra-message/after-expired-session".into(),
                msg: format!("new subscription {k} (identifier {sid}) yielded a message that carries identifier {} of the expired session ({how})", old[last].1),
            });
        }
    }
    // and regular traffic reaches exactly its subscription
    let target = n_new - 1;
    w.tick();
    w.reader.feed(msg(new[target].1, 201));
    settle(&mut w, &plan, true);
    for (k, (stream, _)) in new.iter().enumerate() {
        w.drain_stream(*stream);
        let want = usize::from(k == target);
        if w.streams[*stream].items.len() != want && !w.streams[*stream].ended {
            return Some(Failure {
                sig: if want == 1 { "C07/stream/message-lost/after-expired-session".into() } else { "C07/stream/extra-message/after-expired-session".into() },
                msg: format!("new subscription {k} yielded {} message(s), expected {want} ({how})", w.streams[*stream].items.len()),
            });
        }
    }
    None
}

/// The session continues over a reconnection (the server says Session Present); `open` inbound
/// QoS 2 exchanges are open (PUBREC sent, no PUBREL yet) when the connection is lost, and the
/// broker re-delivers them on the new connection before releasing them.
/// `expiry1`: 0 = the first CONNECT asks for one hour, 1 = the first CONNACK assigns it, 2 = both;
/// `second`: 0 = the second CONNECT repeats the interval, 1 = it carries none, 2 = the hook records
/// the disconnection (interval repeated, session alive).
pub fn c09_across_reconnection(expiry1: u8, second: u8, open: usize, lost_by: u8) -> Option<Failure> {
    use crate::world::World;
    let plan = WritePlan::default();
    let mut w = World::new();
    let spec1 = ConnectSpec { session_expiry: if expiry1 != 1 { Some(3600) } else { None }, client_id: Some("c09".into()), ..Default::default() };
    let connack1 = rc::Connack { session_expiry: if expiry1 != 0 { Some(3600) } else { None }, ..Default::default() };
    if connect_and_run(&mut w, spec1.clone(), &connack1, &plan).is_err() {
        return None;
    }
    let mut tr = Tracker::new();
    tr.skip_existing(&mut w);
    let s = w.start_op(0, OpSpec::Subscribe(tagged_subscribe(0, 1))).unwrap();
    settle(&mut w, &plan, true);
    tr.update(&mut w);
    let spid = tr.pid(s)?;
    let sid = tr.sub_id(s)?;
    feed_packet(&mut w, &rc::Packet::Suback(rc::AckList { pid: spid, reasons: vec![2], ..Default::default() }), &rc::Form::canonical());
    settle(&mut w, &plan, true);
    let stream = w.make_stream(s)?;
    let msg = |pid: u16, dup: bool, tag: &str| {
        rc::encode(
            // Message Expiry Interval 1 s / 5 s / one hour / absent: how long a message may still be
            // forwarded says nothing about whether the client has already seen it
            &rc::Packet::Publish(rc::Publish { qos: 2, dup, pid: Some(pid), topic: "c09/t".into(), payload: tag.as_bytes().to_vec(), subscription_ids: vec![sid], message_expiry: [Some(1u32), Some(5), Some(3600), None][(pid as usize + open) % 4], ..Default::default() }),
            &rc::Form::canonical(),
        )
    };
    for k in 0..open {
        w.tick();
        if lost_by > 0 && k + 1 == open {
            // the connection breaks (write error) lost_by - 1 bytes into the PUBREC of the last
            // message: the broker never sees that PUBREC and will send the message again
            w.writer.set_fault(crate::mockio::WriteFault::ErrAt(w.wire_len() + lost_by as usize - 1));
        }
        w.reader.feed(msg(10 + k as u16, false, &format!("first-{k}")));
        settle(&mut w, &plan, true);
    }
    w.drain_stream(stream);
    if w.streams[stream].items.len() != open {
        return None; // C07 / C08 judge a single connection
    }
    // the connection is lost
    if lost_by == 0 {
        w.tick();
        w.reader.set_eof();
        settle(&mut w, &plan, true);
    }
    if w.run_result.is_none() {
        return None;
    }
    if second == 2 && !w.mark_disconnected(10) {
        return None;
    }
    if !w.set_up_again() {
        return None;
    }
    let spec2 = ConnectSpec { clean_start: Some(false), session_expiry: if second == 1 { None } else { Some(3600) }, client_id: Some("c09".into()), ..Default::default() };
    // the server resumes the session (and, where it assigned the interval, says so again)
    let connack2 = rc::Connack { session_present: true, session_expiry: if expiry1 != 0 { Some(3600) } else { None }, ..Default::default() };
    if connect_and_run(&mut w, spec2, &connack2, &plan).is_err() {
        return None;
    }
    w.sync_wire();
    let before = w.pkts.len();
    // nothing has arrived on the new connection yet: an acknowledgement written now answers nothing
    let connect_at = w.pkts.iter().rposition(|p| matches!(&p.decoded, Ok(rc::Packet::Connect(_)))).unwrap_or(0);
    if let Some(p) = w.pkts[connect_at..].iter().find(|p| matches!(&p.decoded, Ok(rc::Packet::Puback(_) | rc::Packet::Pubrec(_) | rc::Packet::Pubcomp(_)))) {
        return Some(Failure {
            sig: "C08/unsolicited-acknowledgement/on-the-resumed-connection".into(),
            msg: format!("the client wrote a packet starting with {:#04x} on the new connection before the broker had sent anything but the CONNACK ({open} inbound QoS 2 exchange(s) open at the loss, second={second}, lost_by={lost_by})", p.first),
        });
    }
    for k in 0..open {
        w.tick();
        w.reader.feed(msg(10 + k as u16, true, &format!("first-{k}")));
        settle(&mut w, &plan, true);
    }
    if let Some(p) = first_panic(&w) {
        return Some(Failure { sig: format!("PANIC/{}", panic_sig(&p)), msg: p });
    }
    w.drain_stream(stream);
    let how = format!(
        "first CONNECT {} / first CONNACK {} a Session Expiry Interval; second CONNECT {}; {open} exchange(s) open at the loss ({})",
        if expiry1 != 1 { "carries" } else { "lacks" },
        if expiry1 != 0 { "assigns" } else { "lacks" },
        match second { 0 => "repeats it", 1 => "carries none (the server resumes the session all the same)", _ => "repeats it, disconnection recorded through the hook" },
        if lost_by == 0 { "end-of-stream".to_string() } else { format!("write error {} byte(s) into the last PUBREC", lost_by - 1) },
    );
    if w.streams[stream].ended {
        return None; // C07's claim
    }
    if w.streams[stream].items.len() > open {
        return Some(Failure {
            sig: "C09/stream/qos2-redelivery-yielded-twice/across-reconnection".into(),
            msg: format!("{} message(s) yielded for {open} QoS 2 message(s) re-delivered (DUP) before their PUBREL on the resumed session ({how})", w.streams[stream].items.len()),
        });
    }
    w.sync_wire();
    let recs = w.pkts[before..].iter().filter(|p| matches!(&p.decoded, Ok(rc::Packet::Pubrec(_)))).count();
    if recs != open && w.run_result.is_none() {
        return Some(Failure {
            sig: "C08/missing-pubrec".into(),
            msg: format!("{recs} PUBREC for {open} re-delivered QoS 2 PUBLISH packets on the resumed session ({how})"),
        });
    }
    // release, then the identifier denotes a new message
    for k in 0..open {
        w.tick();
        w.reader.feed(rc::encode(&rc::Packet::Pubrel(rc::Ack { pid: 10 + k as u16, ..Default::default() }), &rc::Form::short()));
        settle(&mut w, &plan, true);
        w.reader.feed(msg(10 + k as u16, false, &format!("second-{k}")));
        settle(&mut w, &plan, true);
    }
    w.drain_stream(stream);
    if w.run_result.is_none() && !w.streams[stream].ended && w.streams[stream].items.len() != 2 * open {
        return Some(Failure {
            sig: "C09/stream/new-message-after-pubrel-not-yielded/across-reconnection".into(),
            msg: format!("{} messages yielded in all; {open} first deliveries and {open} new messages after their PUBREL were sent ({how})", w.streams[stream].items.len()),
        });
    }
    None
}

// ---------------------------------------------------------------------------------
// C10

pub struct C10;

pub fn rm_small() -> BoxedStrategy<Option<u16>> {
    prop_oneof![
        8 => prop::sample::select(vec![1u16, 2, 3, 5, 16]).prop_map(Some),
        1 => Just(Some(65535u16)),
        1 => Just(None),
    ]
    .boxed()
}

/// marker (`Ev::AdvanceIdentifiers { n: C10_FULL_WINDOW }` as the only event): the 65 535-slot
/// window of a server that announces no Receive Maximum (or 65 535) filled to the brim
const C10_FULL_WINDOW: u32 = 0xc10f_0001;

/// 65 535 QoS 1/2 publishes outstanding at once, then one more: refused, nothing written; one
/// acknowledgement, one more publish: accepted. Driven directly (no session model: its per-step
/// bookkeeping over 65 535 operations takes minutes, see the thorough tier).
fn c10_full_window(receive_max: Option<u16>) -> Option<Failure> {
    use crate::world::World;
    let plan = WritePlan::default();
    let mut w = World::new();
    w.poll_budget = 50_000_000;
    let connack = rc::Connack { receive_maximum: receive_max, ..Default::default() };
    if connect_and_run(&mut w, ConnectSpec::default(), &connack, &plan).is_err() {
        return None;
    }
    w.sync_wire();
    let before = w.pkts.len();
    let publish = |i: u32| OpSpec::Publish(PublishSpec { qos: Some(1 + (i % 2) as u8), topic: Some("w".into()), ..Default::default() });
    for i in 0..65_535u32 {
        w.start_op(0, publish(i))?;
    }
    settle(&mut w, &plan, false);
    if let Some(p) = first_panic(&w) {
        return Some(Failure { sig: format!("PANIC/{}", panic_sig(&p)), msg: p });
    }
    w.sync_wire();
    let on_wire = w.pkts[before..].iter().filter(|p| p.first >> 4 == 3).count();
    let how = match receive_max {
        None => "no Receive Maximum announced".to_string(),
        Some(r) => format!("Receive Maximum {r}"),
    };
    if on_wire != 65_535 {
        return Some(Failure { sig: "C10/refused-below-receive-maximum/full-window".into(), msg: format!("{on_wire} of 65 535 QoS>0 publishes were written ({how})") });
    }
    let extra = w.start_op(0, publish(1))?;
    settle(&mut w, &plan, false);
    w.sync_wire();
    let now = w.pkts[before..].iter().filter(|p| p.first >> 4 == 3).count();
    if now != 65_535 || !matches!(&w.ops[extra].res, Some(OpRes::Err(ErrSum::QuotaExceeded))) {
        return Some(Failure {
            sig: "C10/receive-maximum-exceeded".into(),
            msg: format!("65 535 QoS>0 publishes are outstanding ({how}); one more publish ended as {:?} and {now} PUBLISH packets are on the wire", w.ops[extra].res),
        });
    }
    // one slot comes back (the first publish was QoS 1 with identifier read off the wire)
    let pid = w.pkts[before..].iter().find_map(|p| match &p.decoded {
        Ok(rc::Packet::Publish(x)) if x.qos == 1 => x.pid,
        _ => None,
    })?;
    feed_packet(&mut w, &rc::Packet::Puback(rc::Ack { pid, ..Default::default() }), &rc::Form::short());
    settle(&mut w, &plan, false);
    let again = w.start_op(0, publish(0))?;
    settle(&mut w, &plan, false);
    w.sync_wire();
    let after = w.pkts[before..].iter().filter(|p| p.first >> 4 == 3).count();
    if after != 65_536 || w.ops[again].res.is_some() {
        return Some(Failure {
            sig: "C10/refused-below-receive-maximum/full-window".into(),
            msg: format!("after one PUBACK 65 534 publishes are outstanding ({how}); the next publish ended as {:?}, {after} PUBLISH packets on the wire", w.ops[again].res),
        });
    }
    None
}

impl Property for C10 {
    const ID: &'static str = "C10";
    const RULE: &'static str = "Receive Maximum R in {1,2,3,5,16,65535,absent} x histories of QoS 0/1/2 publishes, other operations and acknowledgements (oldest/newest/random outstanding; success and every failing reason; PUBACK, PUBREC, PUBCOMP) under quiescent stepping, so the model predicts every accept/refuse decision exactly; exhaustive over a 6-symbol alphabet for R in {1,2}. Non-trivial = the quota was exhausted and later replenished at least once";
    type Case = Scenario;

    fn strategy(tier: Tier) -> BoxedStrategy<Scenario> {
        let ev = prop_oneof![
            8 => start(vec![(1, OpKind::Pub0), (4, OpKind::Pub1), (4, OpKind::Pub2), (1, OpKind::Sub(0)), (1, OpKind::Ping)]),
            7 => ack(deco()),
            // a caller giving up on a publish does not change what is in flight
            1 => sel().prop_map(|sel| Ev::DropOp { sel }),
            // nor does dropping run() at a quiescent point and calling it again
            1 => Just(Ev::ReenterRun),
            // nor does anything the broker sends for the OTHER direction: a PUBREL (for an exchange
            // of its own, here one the client does not know) is answered, and frees nothing
            1 => (1u16..5).prop_map(|pid| Ev::In(Inbound::Pubrel { pid, known: false })),
        ]
        .boxed();
        crowd(no_inbound(scenario(rm_small(), ev, 1..tier.pick(60, 200))))
    }

    fn cases(tier: Tier) -> u32 {
        tier.pick(20_000, 150_000)
    }

    fn exhaustive(tier: Tier, worker: usize, workers: usize) -> Box<dyn Iterator<Item = Scenario>> {
        let ok = Deco::default();
        let failing = Deco { reason: 2, ..Default::default() }; // index 2 = 0x80 in PUBACK/PUBREC tables
        let alphabet = vec![
            Ev::Start { h: 0, kind: OpKind::Pub1, settle: false, solo: false },
            Ev::Start { h: 0, kind: OpKind::Pub2, settle: false, solo: false },
            Ev::Start { h: 0, kind: OpKind::Pub0, settle: false, solo: false },
            Ev::In(Inbound::Ack { sel: 0, deco: ok }),
            Ev::In(Inbound::Ack { sel: 0, deco: failing }),
            Ev::In(Inbound::Ack { sel: 65535, deco: ok }),
        ];
        let depth = tier.pick(6, 8);
        let a2 = alphabet.clone();
        // Receive Maximum absent / 65535: a history that really fills all 65535 slots, is
        // refused at the 65536th, frees one slot and is accepted again (thorough tier)
        let mut fill = vec![];
        if tier == Tier::Thorough && worker < 2 {
            let mut events = vec![];
            for i in 0..65_536u32 {
                events.push(Ev::Start { h: 0, kind: if i % 2 == 0 { OpKind::Pub1 } else { OpKind::Pub2 }, settle: false, solo: false });
            }
            events.push(Ev::In(Inbound::Ack { sel: 30000, deco: ok }));
            events.push(Ev::Start { h: 0, kind: OpKind::Pub1, settle: false, solo: false });
            events.push(Ev::Start { h: 0, kind: OpKind::Pub2, settle: false, solo: false });
            fill.push(Scenario { receive_max: if worker == 0 { None } else { Some(65535) }, max_packet_size: None, id_offset: 0, prologue: 0, events });
        }
        for (k, rm) in [None, Some(65_535u16)].into_iter().enumerate() {
            if (k + 2) % workers.max(1) == worker {
                fill.push(Scenario { receive_max: rm, max_packet_size: None, id_offset: 0, prologue: 0, events: vec![Ev::AdvanceIdentifiers { n: C10_FULL_WINDOW }] });
            }
        }
        Box::new(
            sequences(alphabet, depth, worker, workers)
                .map(|events| Scenario { receive_max: Some(1), max_packet_size: None, id_offset: 0, prologue: 0, events })
                .chain(sequences(a2, depth, worker, workers).map(|events| Scenario { receive_max: Some(2), max_packet_size: None, id_offset: 0, prologue: 0, events }))
                .chain(fill),
        )
    }

    fn assumptions() -> Vec<String> {
        vec![
            "conformant broker; quiescent stepping makes the moment a request is handled well-defined".into(),
            "outstanding = QoS>0 PUBLISH packets seen on the wire minus PUBACK, PUBCOMP and PUBREC>=0x80 fed".into(),
        ]
    }

    fn run(case: &Scenario) -> Outcome {
        if matches!(case.events[..], [Ev::AdvanceIdentifiers { n: C10_FULL_WINDOW }]) {
            let mut o = Outcome::ok();
            o.nontrivial = true;
            o.class("window-of-65535-filled-to-the-brim");
            o.fail = c10_full_window(case.receive_max);
            return o;
        }
        let cfg = SimCfg::default();
        let out = run(case, &cfg);
        let mut o = Outcome::ok();
        // the same history with the operation futures polled late: after an acknowledgement
        // only the context runs; the futures run at the next (settled) start
        // (not for the 65 536-publish histories of the thorough tier: one run of those takes minutes)
        if out.failures.is_empty() && case.events.len() < 20_000 {
            let lazy = Scenario {
                events: case
                    .events
                    .iter()
                    .flat_map(|e| match e {
                        // alternately: everything settles at the start / only the new request is served
                        Ev::Start { h, kind, .. } => vec![Ev::Start { h: *h, kind: *kind, settle: true, solo: (*h as usize + case.events.len()) % 2 == 0 }, Ev::Settle],
                        Ev::In(x) => vec![Ev::In(x.clone()), Ev::PollCtx],
                        other => vec![other.clone(), Ev::Settle],
                    })
                    .collect(),
                ..case.clone()
            };
            let out2 = run(&lazy, &SimCfg { auto_settle: false, ..Default::default() });
            if let Some(mut f) = failure_for(&out2, &["C10/"]) {
                f.msg = format!("[operation futures polled late] {}", f.msg);
                o.fail = Some(f);
                o.nontrivial = true;
                return o;
            }
            o.class("also-run-with-late-polled-futures");
        }
        // the same history cut by a connection loss and resumed (or expired) under a second Receive
        // Maximum: what is re-sent still occupies the limit, and nothing leaks across
        if out.failures.is_empty() {
            if let Some(r1) = case.receive_max.filter(|r| *r <= 16) {
                let steps: Vec<super::misc::Step> = case
                    .events
                    .iter()
                    .filter_map(|e| match e {
                        Ev::Start { kind: OpKind::Pub1, .. } => Some(super::misc::Step::Pub1),
                        Ev::Start { kind: OpKind::Pub2, .. } => Some(super::misc::Step::Pub2),
                        Ev::In(Inbound::Ack { sel, .. }) => Some(if sel % 2 == 0 { super::misc::Step::AckOldest } else { super::misc::Step::AckNewest }),
                        _ => None,
                    })
                    .take(24)
                    .collect();
                let n = case.events.len();
                let r2 = match n % 4 {
                    0 | 1 => r1,
                    2 => (r1 / 2).max(1),
                    _ => r1 + 2,
                };
                let expired = n % 5 == 0;
                let lost_in_publish = (n % 3 == 1).then_some((n % 11) as u8);
                if let Some(mut f) = super::misc::run_c10_resume(&steps, r1, r2, expired, lost_in_publish, &mut o) {
                    f.msg = format!("[history resumed after a connection loss] {}", f.msg);
                    o.fail = Some(f);
                    o.nontrivial = true;
                    return o;
                }
            }
        }
        o.nontrivial = out.stats.quota_exhausted >= 1 && out.stats.quota_replenished_after_exhaustion >= 1;
        for f in &out.stats.freed_by {
            o.class(format!("slot-freed-by-{f}"));
        }
        if out.stats.quota_exhausted > 0 {
            o.class("quota-exhausted");
        }
        o.class(format!("R-{}", case.receive_max.map(|v| v.to_string()).unwrap_or("absent".into())));
        if out.stats.refused_for_size > 0 {
            o.class("request-refused-for-size");
        }
        o.fail = failure_for(&out, &["C10/"]);
        o
    }
}

// ---------------------------------------------------------------------------------
// C14

pub struct C14;

fn mixed_history(tier: Tier) -> BoxedStrategy<Vec<Ev>> {
    let ev = prop_oneof![
        6 => start(vec![(1, OpKind::Pub0), (3, OpKind::Pub1), (3, OpKind::Pub2), (3, OpKind::Sub(0)), (1, OpKind::Unsub(0)), (1, OpKind::Ping)]),
        6 => ack(deco()),
        4 => in_publish((0u8..3).boxed(), Just(0u16).boxed(), target_any()),
        // QoS 1 messages from a pool of two identifiers, DUP set or not: a re-delivery of a QoS 1
        // message is one more message
        2 => in_publish(Just(1u8).boxed(), (1u16..3).boxed(), target_any()),
        1 => (1u16..4, any::<bool>()).prop_map(|(pid, known)| Ev::In(Inbound::Pubrel { pid, known })),
        3 => stream_events(),
        1 => Just(Ev::CloneHandle),
        3 => Just(Ev::PollCtx),
        3 => sel().prop_map(|sel| Ev::PollOp { sel }),
        5 => Just(Ev::Settle),
        1 => Just(Ev::ReenterRun),
    ];
    vec(prop_oneof![9 => ev.prop_map(|e| vec![e]), 1 => sub_ready()], 0..tier.pick(24, 60))
        .prop_map(flat)
        .boxed()
}

impl Property for C14 {
    const ID: &'static str = "C14";
    const RULE: &'static str = "bounded histories (operations of every kind, acknowledgements, inbound messages, stream calls, individual polls) with the context dropped at EVERY position of the history (n+1 runs per history), by cancelling the running task; afterwards new operations on a live handle and a wake-only drain of everything. Non-trivial = at the drop there were operations in >= 2 different phases or a stream with buffered messages (for some drop position)";
    type Case = Scenario;

    fn strategy(tier: Tier) -> BoxedStrategy<Scenario> {
        (rm_small(), mixed_history(tier), id_offset(0), max_pkt(), prologue_variant())
            .prop_map(|(receive_max, events, id_offset, max_packet_size, prologue)| Scenario { receive_max, max_packet_size, id_offset, prologue, events })
            .boxed()
    }

    fn cases(tier: Tier) -> u32 {
        tier.pick(4000, 40_000)
    }

    fn assumptions() -> Vec<String> {
        vec!["an operation whose final acknowledgement the context had processed before the drop must yield that result; any other pending operation must yield ContextExited".into()]
    }

    fn run(case: &Scenario) -> Outcome {
        let cfg = SimCfg { auto_settle: false, ..Default::default() };
        let mut o = Outcome::ok();
        for k in 0..=case.events.len() {
            let mut events: Vec<Ev> = case.events[..k].to_vec();
            events.push(Ev::DropCtx);
            let scn = Scenario { receive_max: case.receive_max, max_packet_size: case.max_packet_size, id_offset: case.id_offset, prologue: case.prologue, events };
            let out = run(&scn, &cfg);
            if out.stats.phases_at_drop.len() >= 2 || out.stats.stream_buffered_at_drop {
                o.nontrivial = true;
            }
            for p in &out.stats.phases_at_drop {
                o.class(format!("phase-at-drop-{p}"));
            }
            if out.stats.stream_buffered_at_drop {
                o.class("stream-buffered-at-drop");
            }
            if let Some(mut f) = failure_for(&out, &["C14/"]) {
                f.msg = format!("context dropped after {k} of {} events: {}", case.events.len(), f.msg);
                o.fail = Some(f);
                break;
            }
        }
        // a user DISCONNECT that is queued (future polled once) but not processed when the
        // context goes away; and one whose write is stuck on back-pressure
        for (tail, blocked) in [
            (vec![Ev::Terminate(Cause::UserDisconnect(DisconnectSpec::default())), Ev::PollOp { sel: 65535 }, Ev::DropCtx], false),
            (vec![Ev::Terminate(Cause::UserDisconnect(DisconnectSpec::default())), Ev::PollOp { sel: 65535 }, Ev::PollCtx, Ev::DropCtx], true),
            // two (three) disconnect() calls from different clones in flight at the drop
            (
                vec![
                    Ev::CloneHandle,
                    Ev::CloneHandle,
                    Ev::Terminate(Cause::UserDisconnect(DisconnectSpec::default())),
                    Ev::PollOp { sel: 65535 },
                    Ev::Start { h: 255, kind: OpKind::Disconnect, settle: false, solo: false },
                    Ev::PollOp { sel: 65535 },
                    Ev::Start { h: 128, kind: OpKind::Disconnect, settle: false, solo: false },
                    Ev::PollOp { sel: 65535 },
                    Ev::DropCtx,
                ],
                false,
            ),
            (
                vec![
                    Ev::CloneHandle,
                    Ev::Terminate(Cause::UserDisconnect(DisconnectSpec::default())),
                    Ev::PollOp { sel: 65535 },
                    Ev::PollCtx,
                    Ev::Start { h: 255, kind: OpKind::Disconnect, settle: false, solo: false },
                    Ev::PollOp { sel: 65535 },
                    Ev::DropCtx,
                ],
                true,
            ),
        ] {
            if o.fail.is_some() {
                break;
            }
            let mut events = case.events.clone();
            events.extend(tail);
            let scn = Scenario { receive_max: case.receive_max, max_packet_size: case.max_packet_size, id_offset: case.id_offset, prologue: case.prologue, events };
            let cfg2 = SimCfg {
                auto_settle: false,
                // nothing more is accepted by the transport in the blocked variant: the
                // DISCONNECT is taken from the queue but cannot be written
                write: if blocked { WritePlan { per_call: 1, stall: None } } else { WritePlan::default() },
                ..Default::default()
            };
            let out = if blocked { run_blocked_tail(&scn, &cfg2) } else { run(&scn, &cfg2) };
            o.class(if blocked { "drop-with-disconnect-write-blocked" } else { "drop-with-disconnect-queued" });
            if let Some(mut f) = failure_for(&out, &["C14/"]) {
                f.msg = format!("user DISCONNECT pending when the context was dropped: {}", f.msg);
                o.fail = Some(f);
            }
        }
        // dropping the context after run() returned, for several terminating causes
        let causes = [
            Cause::Eof,
            Cause::ReadErr,
            Cause::WriteErr,
            Cause::UserDisconnect(DisconnectSpec::default()),
            Cause::ServerDisconnect(rc::Disconnect { reason: 0x8b, ..Default::default() }, true),
            Cause::ServerDisconnect(rc::Disconnect::default(), true),
            Cause::Garbage(vec![0x00, 0x00]),
            // one more server DISCONNECT reason per case, so that all of them come up
            Cause::ServerDisconnect(
                rc::Disconnect { reason: rc::SERVER_DISCONNECT_REASONS[(case_hash(case) as usize) % rc::SERVER_DISCONNECT_REASONS.len()], reason_string: Some("bye".into()), ..Default::default() },
                false,
            ),
        ];
        for cause in causes {
            if o.fail.is_some() {
                break;
            }
            let mut events = case.events.clone();
            events.push(Ev::Terminate(cause.clone()));
            events.push(Ev::Settle);
            events.push(Ev::DropCtx);
            let scn = Scenario { receive_max: case.receive_max, max_packet_size: case.max_packet_size, id_offset: case.id_offset, prologue: case.prologue, events };
            let out = run(&scn, &cfg);
            o.class(format!("drop-after-run-returned-{}", cause_name(&cause)));
            if let Some(mut f) = failure_for(&out, &["C14/"]) {
                f.msg = format!("context dropped after run() returned ({}): {}", cause_name(&cause), f.msg);
                o.fail = Some(f);
            }
        }
        // a stream with a long backlog (more messages than any internal batch size) at the drop
        for n in [32usize, 33, 70] {
            if o.fail.is_some() {
                break;
            }
            let mut events = vec![
                Ev::Start { h: 0, kind: OpKind::Sub(0), settle: false, solo: false },
                Ev::Settle,
                Ev::In(Inbound::Ack { sel: 65535, deco: Deco::default() }),
                Ev::Settle,
                Ev::MakeStream { sel: 65535 },
            ];
            for k in 0..n {
                events.push(Ev::In(Inbound::Publish { qos: (k % 3) as u8, dup: false, retain: false, pid: 0, target: Target::Sub(0), payload_len: 1, props: 0 }));
            }
            events.push(Ev::Settle);
            events.push(Ev::DropCtx);
            let scn = Scenario { receive_max: None, max_packet_size: None, id_offset: 0, prologue: 0, events };
            let out = run(&scn, &cfg);
            o.class("drop-with-long-stream-backlog");
            if let Some(mut f) = failure_for(&out, &["C14/", "C07/stream/message-lost"]) {
                f.msg = format!("stream with {n} buffered messages when the context was dropped: {}", f.msg);
                o.fail = Some(f);
            }
        }
        // a consumer that keeps up, a QoS 1 message re-delivered (DUP, same identifier) as the last
        // thing its stream sees before the drop
        for dup_again in [1usize, 2] {
            if o.fail.is_some() {
                break;
            }
            let mut events = sub_ready_events();
            events.push(Ev::In(Inbound::Publish { qos: 1, dup: false, retain: false, pid: 7, target: Target::Sub(0), payload_len: 1, props: 0 }));
            events.push(Ev::Settle);
            events.push(Ev::PollStream { sel: 0 });
            events.push(Ev::PollStream { sel: 0 });
            for _ in 0..dup_again {
                events.push(Ev::In(Inbound::Publish { qos: 1, dup: true, retain: false, pid: 7, target: Target::Sub(0), payload_len: 1, props: 0 }));
                events.push(Ev::Settle);
                events.push(Ev::PollStream { sel: 0 });
                events.push(Ev::PollStream { sel: 0 });
            }
            events.push(Ev::DropCtx);
            let scn = Scenario { receive_max: None, max_packet_size: None, id_offset: 0, prologue: 0, events };
            let out = run(&scn, &SimCfg { auto_settle: false, ..Default::default() });
            o.class("drop-after-a-qos1-redelivery");
            if let Some(mut f) = failure_for(&out, &["C14/", "C07/stream/message-lost"]) {
                f.msg = format!("QoS 1 message re-delivered {dup_again}x to a stream that keeps up, then the context dropped: {}", f.msg);
                o.fail = Some(f);
            }
        }
        // a context that is dropped without run() ever having been called, and one dropped in
        // the middle of connect(): requests already submitted must fail, not hang
        if o.fail.is_none() {
            if let Some(f) = drop_idle_context(case.events.len() % 2 == 0) {
                o.fail = Some(f);
            }
            o.class("drop-of-a-context-that-never-ran");
        }
        o.classes.sort();
        o.classes.dedup();
        o
    }
}

fn drop_idle_context(during_connect: bool) -> Option<Failure> {
    use crate::world::World;
    let plan = WritePlan::default();
    let mut w = World::new();
    w.tick();
    w.start_connect(ConnectSpec::default());
    settle(&mut w, &plan, false);
    if !during_connect {
        w.reader.feed(rc::encode(&rc::Packet::Connack(rc::Connack::default()), &rc::Form::canonical()));
        settle(&mut w, &plan, false);
    }
    let specs = vec![
        OpSpec::Publish(tagged_publish(0, 0)),
        OpSpec::Publish(tagged_publish(1, 1)),
        OpSpec::Publish(tagged_publish(2, 2)),
        OpSpec::Subscribe(tagged_subscribe(3, 1)),
        OpSpec::Unsubscribe(tagged_unsubscribe(4, 1)),
        OpSpec::Ping,
        OpSpec::Disconnect(DisconnectSpec::default()),
    ];
    let mut ops = vec![];
    for sp in specs {
        let i = w.start_op(0, sp).unwrap();
        w.poll_op(i); // submitted: the request sits in the queue
        ops.push(i);
    }
    w.tick();
    w.drop_ctx();
    settle(&mut w, &plan, false);
    if let Some(p) = first_panic(&w) {
        return Some(Failure { sig: format!("PANIC/{}", panic_sig(&p)), msg: p });
    }
    for i in ops {
        if w.ops[i].res != Some(OpRes::Err(ErrSum::ContextExited)) {
            return Some(Failure {
                sig: format!("C14/queued-operation-after-idle-context-drop/{}", w.ops[i].spec.kind()),
                msg: format!(
                    "context dropped {} with the request queued: {} ended with {:?}, want Err(ContextExited)",
                    if during_connect { "in the middle of connect()" } else { "before run() was ever called" },
                    w.ops[i].spec.kind(),
                    w.ops[i].res
                ),
            });
        }
    }
    None
}

/// like `run`, but the writer stops accepting bytes right before the last three events
fn run_blocked_tail(scn: &Scenario, cfg: &SimCfg) -> SimOut {
    run_with_block(scn, cfg, scn.events.len().saturating_sub(4))
}

// ---------------------------------------------------------------------------------
// C15

pub struct C15;

fn strip_cancellations(s: &Scenario) -> Scenario {
    Scenario {
        receive_max: s.receive_max,
        max_packet_size: s.max_packet_size,
        id_offset: s.id_offset,
        prologue: s.prologue,
        events: s
            .events
            .iter()
            .filter(|e| !matches!(e, Ev::DropOp { .. } | Ev::DropStream { .. }))
            .cloned()
            .collect(),
    }
}

impl Property for C15 {
    const ID: &'static str = "C15";
    const RULE: &'static str = "histories with operation futures dropped at any point (before first poll, awaiting acknowledgement, between the QoS 2 phases) and streams dropped, followed by the late acknowledgements and by traffic of the survivors, small Receive Maximum so a leaked or over-committed slot is observable; every model discrepancy is reported only if the same history WITHOUT the cancellations does not show it. Non-trivial = a late acknowledgement for an abandoned operation is fed while another operation is outstanding";
    type Case = Scenario;

    fn strategy(tier: Tier) -> BoxedStrategy<Scenario> {
        let ev = prop_oneof![
            7 => start(vec![(3, OpKind::Pub1), (4, OpKind::Pub2), (2, OpKind::Sub(0)), (1, OpKind::Unsub(0)), (1, OpKind::Ping), (2, OpKind::Pub0)]).prop_map(|e| vec![settled(e), Ev::Settle]),
            3 => start(vec![(1, OpKind::Pub1), (1, OpKind::Pub2), (1, OpKind::Sub(0)), (2, OpKind::Pub0)]).prop_map(|e| vec![e]),
            // a request abandoned while it is queued or half written (slow writer variant)
            2 => (start(vec![(2, OpKind::Pub0), (1, OpKind::Pub1), (1, OpKind::Sub(0)), (1, OpKind::Ping)]), any::<bool>()).prop_map(|(e, polled)| {
                if polled { vec![e, Ev::PollOp { sel: 65535 }, Ev::PollCtx, Ev::DropOp { sel: 65535 }, Ev::PollCtx] } else { vec![e, Ev::PollOp { sel: 65535 }, Ev::DropOp { sel: 65535 }, Ev::PollCtx] }
            }),
            8 => ack(deco()).prop_map(|e| vec![e, Ev::Settle]),
            3 => ack(deco()).prop_map(|e| vec![e, Ev::PollCtx]),
            1 => sel().prop_map(|sel| vec![Ev::PollOp { sel }]),
            1 => sel().prop_map(|sel| vec![Ev::DropOp { sel }]),
            4 => sel().prop_map(|sel| vec![Ev::DropOp { sel }, Ev::Settle]),
            2 => in_publish((0u8..3).boxed(), Just(0u16).boxed(), target_any()).prop_map(|e| vec![e, Ev::Settle]),
            2 => stream_events().prop_map(|e| vec![e, Ev::Settle]),
            2 => sub_ready(),
            2 => sel().prop_map(|sel| vec![Ev::DropStream { sel }, Ev::Settle]),
            1 => Just(vec![Ev::ReenterRun]),
            1 => Just(vec![Ev::PollCtx]),
            // a QoS 2 message naming several subscriptions (some of whose streams may be gone),
            // sent again before its PUBREL, then released: the surviving streams get it once
            2 => (1u16..4, prop::sample::select(vec![Target::All, Target::AllReversed, Target::Two(0, 65535), Target::Two(65535, 0)]), any::<bool>()).prop_map(|(pid, target, release)| {
                let p = |dup: bool| Ev::In(Inbound::Publish { qos: 2, dup, retain: false, pid, target, payload_len: 1, props: 0 });
                let mut v = vec![p(false), Ev::Settle, p(true), Ev::Settle];
                if release {
                    v.push(Ev::In(Inbound::Pubrel { pid, known: false }));
                    v.push(Ev::Settle);
                }
                v
            }),
        ];
        let s = (prop::sample::select(vec![Some(1u16), Some(2), Some(3), Some(5), None]), vec(ev, 1..tier.pick(40, 120)), prologue_variant())
            .prop_map(|(receive_max, evs, prologue)| Scenario {
                receive_max,
                max_packet_size: None,
                id_offset: 0,
                prologue,
                events: evs.into_iter().flatten().collect(),
            })
            .boxed();
        let s = (s, id_offset(2), max_pkt())
            .prop_map(|(mut s, o, m)| {
                s.id_offset = o;
                s.max_packet_size = m;
                s
            })
            .boxed();
        s
    }

    fn cases(tier: Tier) -> u32 {
        tier.pick(20_000, 150_000)
    }

    fn exhaustive(tier: Tier, worker: usize, workers: usize) -> Box<dyn Iterator<Item = Scenario>> {
        let ok = Deco::default();
        let alphabet = vec![
            Ev::Start { h: 0, kind: OpKind::Pub2, settle: true, solo: false },
            Ev::Start { h: 0, kind: OpKind::Pub1, settle: true, solo: false },
            Ev::In(Inbound::Ack { sel: 0, deco: ok }),
            Ev::PollCtx,
            Ev::PollOp { sel: 0 },
            Ev::DropOp { sel: 0 },
            Ev::DropOp { sel: 65535 },
            Ev::Settle,
        ];
        let mut crowded = crowded_cancellations(worker, workers, tier == Tier::Thorough);
        // a whole lap of the identifier counter after a cancellation: what an abandoned operation
        // left behind must not catch the operation that gets its identifier next time round
        for (k, (kind, between)) in [(OpKind::Pub2, false), (OpKind::Pub2, true), (OpKind::Pub1, false), (OpKind::Sub(0), false)].into_iter().enumerate() {
            if k % workers != worker % workers.max(1) {
                continue;
            }
            let mut events = vec![Ev::Start { h: 0, kind, settle: false, solo: false }, Ev::Settle];
            if between {
                events.push(Ev::In(Inbound::Ack { sel: 0, deco: ok }));
                events.push(Ev::PollCtx);
            }
            events.push(Ev::DropOp { sel: 0 });
            for _ in 0..3 {
                events.push(Ev::In(Inbound::Ack { sel: 0, deco: ok }));
                events.push(Ev::Settle);
            }
            events.push(Ev::AdvanceIdentifiers { n: 65_534 });
            // same identifier again, every kind
            for kind2 in [kind, OpKind::Pub2, OpKind::Pub1] {
                events.push(Ev::Start { h: 0, kind: kind2, settle: false, solo: false });
                events.push(Ev::Settle);
                for _ in 0..2 {
                    events.push(Ev::In(Inbound::Ack { sel: 65535, deco: ok }));
                    events.push(Ev::Settle);
                }
                events.push(Ev::AdvanceIdentifiers { n: 65_534 });
            }
            crowded.push(Scenario { receive_max: None, max_packet_size: None, id_offset: 0, prologue: 0, events });
        }
        Box::new(
            sequences(alphabet, tier.pick(5, 7), worker, workers)
                .map(|events| Scenario { receive_max: Some(1), max_packet_size: None, id_offset: 0, prologue: 0, events })
                .chain(crowded),
        )
    }

    fn assumptions() -> Vec<String> {
        vec![
            "the broker stays conformant towards an abandoned QoS 2 exchange: it sends PUBCOMP if and only if the client sends PUBREL".into(),
            "a slot is held until PUBACK, PUBCOMP or a failing PUBREC (C10's definition), also for abandoned operations".into(),
        ]
    }

    fn run(case: &Scenario) -> Outcome {
        // a third of the histories run against a slow writer (1-3 bytes per call, stalling): a
        // request can then be abandoned while half of its packet has been accepted
        let h = case_hash(case);
        let slow = h % 3 == 0;
        let cfg = SimCfg {
            auto_settle: false,
            write: if slow { WritePlan { per_call: 1 + (h / 3 % 3) as u16, stall: Some(1 + (h / 9 % 5) as u16) } } else { WritePlan::default() },
            ..Default::default()
        };
        let out = run(case, &cfg);
        let mut o = Outcome::ok();
        if slow {
            o.class("slow-writer");
        }
        o.nontrivial = out.stats.late_ack_while_other_outstanding >= 1;
        if out.stats.late_acks_for_dropped > 0 {
            o.class("late-ack-for-dropped-op");
        }
        if out.stats.dropped_streams > 0 {
            o.class("stream-dropped");
        }
        if out.stats.dropped_ops > 0 {
            o.class("op-dropped");
        }
        if out.stats.inexact_starts > 0 {
            o.excluded.push("accept/refuse verdict skipped: start not in a clean window".into());
        }
        let cand = failure_for(&out, &["C15/", "C05/", "C10/", "C07/", "C09/stream", "C13/run-returned-without-cause", "C06/pubrel", "C01/wire", "C06/unexpected-packet-on-wire", "C06/request-not-written"]);
        if let Some(f) = cand {
            if f.sig.starts_with("C15/") || f.sig.starts_with("PANIC/") || f.sig.starts_with("LIVELOCK/") || f.sig.starts_with("HARNESS/") {
                o.fail = Some(f);
            } else {
                // differential: the same history without the cancellations
                let ctrl = run(&strip_cancellations(case), &cfg);
                if !ctrl.failures.iter().any(|g| g.sig == f.sig) {
                    o.fail = Some(Failure {
                        sig: format!("C15/cancellation-disturbs/{}", f.sig),
                        msg: format!("{} (the history without the cancellations does not show this)", f.msg),
                    });
                }
            }
        }
        o
    }
}

// ---------------------------------------------------------------------------------
// C13 (run phase + connect phase)

pub struct C13;

#[derive(Clone, Debug, Serialize, Deserialize)]
pub enum C13Case {
    Run { prefix: Scenario, cause: Cause },
    /// first response to connect(): a CONNACK / AUTH, or the transport ending at `cut`
    Connect {
        connack: rc::Connack,
        auth: Option<rc::Auth>,
        cut: Option<u16>,
        err: bool,
        /// the Context has been used before: an earlier connection on it ended (end-of-stream or
        /// read error) `tail` bytes into an inbound packet, inside connect() or inside run(); the
        /// case proper then runs on fresh transport halves given to the same Context
        #[serde(default)]
        previous: Option<PrevConn>,
    },
}

#[derive(Clone, Debug, Serialize, Deserialize)]
pub struct PrevConn {
    pub reached_run: bool,
    /// how many bytes of a 40-byte PUBLISH / of the CONNACK had arrived when the transport ended
    pub tail: u8,
    pub err: bool,
    /// Maximum Packet Size the earlier server announced (0 = none)
    #[serde(default)]
    pub max_packet: u8,
}

fn cause() -> BoxedStrategy<Cause> {
    prop_oneof![
        3 => gen::disconnect_spec(false).prop_map(Cause::UserDisconnect),
        1 => (gen::disconnect_spec(false), 100usize..600).prop_map(|(mut d, n)| {
            d.reason_string = Some(gen::make_string(n, 0, 1));
            Cause::UserDisconnect(d)
        }),
        4 => (gen::server_disconnect(false, prop::sample::select(rc::DISCONNECT_REASONS).boxed()), any::<bool>()).prop_map(|(d, s)| Cause::ServerDisconnect(d, s)),
        2 => (gen::server_disconnect(false, Just(0u8).boxed()), any::<bool>()).prop_map(|(d, s)| Cause::ServerDisconnect(d, s)),
        2 => Just(Cause::Eof),
        1 => Just(Cause::ReadErr),
        1 => Just(Cause::WriteErr),
        1 => Just(Cause::WriteZero),
        2 => Just(Cause::DropAllHandles),
        2 => prop::sample::select(vec![
            vec![0x00u8, 0x00],
            vec![0x10, 0x00],
            vec![0x40, 0x02, 0x00, 0x00],
            vec![0x30, 0x03, 0x00, 0x05, 0x61],
            vec![0xd0, 0xff, 0xff, 0xff, 0xff, 0x01],
            vec![0x90, 0x03, 0x00, 0x01, 0x05],
        ]).prop_map(Cause::Garbage),
    ]
    .boxed()
}

impl Property for C13 {
    const ID: &'static str = "C13";
    const RULE: &'static str = "run phase: a generated prefix history (operations outstanding, streams open, mid-QoS 2) followed by exactly one terminating cause (user DISCONNECT with any options; server DISCONNECT with every reason/property set/short form; EOF; read error; write error; write-zero; all handles dropped; undecodable input); connect phase: CONNACK with every reason code, AUTH challenge, transport ending before/inside/after the first response. Non-trivial = the cause arrives with >= 1 operation outstanding or a stream open, or (connect phase) a reason >= 0x80 or a cut";
    type Case = C13Case;

    fn strategy(tier: Tier) -> BoxedStrategy<C13Case> {
        let ev = prop_oneof![
            2 => sub_ready(),
            6 => one(start(all_pub_sub())),
            5 => one(ack(deco())),
            3 => one(in_publish((0u8..3).boxed(), Just(0u16).boxed(), target_any())),
            3 => one(stream_events()),
            1 => Just(vec![Ev::CloneHandle]),
        ]
        .boxed();
        let run_case = (
            scenario_v(Just(None).boxed(), ev, 0..tier.pick(20, 50)),
            cause(),
            prop_oneof![3 => Just(None), 1 => (150u32..400).prop_map(Some)],
        )
            .prop_map(|(mut prefix, cause, m)| {
                prefix.max_packet_size = m;
                C13Case::Run { prefix, cause }
            });
        let conn_case = (
            gen::connack(false, prop::sample::select(rc::CONNACK_REASONS).boxed(), false),
            proptest::option::weighted(0.25, gen::server_auth(false)),
            proptest::option::weighted(0.4, 0u16..40),
            any::<bool>(),
        )
            .prop_map(|(mut connack, auth, cut, err)| {
                if connack.reason == 0 {
                    connack.sub_ids_available = None;
                }
                C13Case::Connect { connack, auth, cut, err, previous: None }
            });
        let conn_case = (conn_case, proptest::option::weighted(0.4, (any::<bool>(), 0u8..40, any::<bool>(), prop_oneof![Just(0u8), 16u8..64])))
            .prop_map(|(mut c, p)| {
                if let C13Case::Connect { previous, .. } = &mut c {
                    *previous = p.map(|(reached_run, tail, err, max_packet)| PrevConn { reached_run, tail, err, max_packet });
                }
                c
            });
        prop_oneof![4 => run_case, 1 => conn_case].boxed()
    }

    fn cases(tier: Tier) -> u32 {
        tier.pick(20_000, 150_000)
    }

    fn assumptions() -> Vec<String> {
        vec![
            "exactly one terminating cause per history; before it run() must be pending at every quiescent point".into(),
            "all handles dropped while operations are pending: the handles those futures hold keep the channel open, no outcome is asserted".into(),
            "for undecodable input any Err is accepted".into(),
        ]
    }

    fn run(case: &C13Case) -> Outcome {
        let mut o = Outcome::ok();
        match case {
            C13Case::Run { prefix, cause } => {
                // variants derived from the case (deterministic): slow writer; an inbound QoS 1
                // PUBLISH already buffered when the cause occurs (both sources of the select
                // loop ready in the same poll)
                let h = case_hash(case);
                let pressure = h % 3 == 0;
                let racing = h % 5 == 1;
                let mut scn = prefix.clone();
                let mut cfg = SimCfg::default();
                #[allow(unused_assignments)]
                if pressure {
                    cfg.write = WritePlan { per_call: 2, stall: Some(3) };
                    o.class("write-back-pressure");
                }
                if racing {
                    cfg.auto_settle = false;
                    scn.events = scn.events.into_iter().flat_map(|e| [e, Ev::Settle]).collect();
                    scn.events.push(Ev::In(Inbound::Publish { qos: 1, dup: false, retain: false, pid: 0, target: Target::Sub(0), payload_len: 1, props: 0 }));
                    o.class("inbound-packet-buffered-at-cause");
                }
                scn.events.push(Ev::Terminate(cause.clone()));
                // requests that get queued BEHIND the user's DISCONNECT before the context runs
                // (another clone's ping; a QoS 2 future polled late): nothing may follow it
                let behind = h % 7 == 2 && matches!(cause, Cause::UserDisconnect(_));
                if behind {
                    if cfg.auto_settle {
                        cfg.auto_settle = false;
                        let n = scn.events.len() - 1;
                        let mut evs: Vec<Ev> = scn.events.drain(..n).flat_map(|e| [e, Ev::Settle]).collect();
                        // leave the last acknowledgement of the prefix unseen by its future
                        if let Some(pos) = evs.iter().rposition(|e| matches!(e, Ev::In(Inbound::Ack { .. }))) {
                            if pos + 1 < evs.len() {
                                evs[pos + 1] = Ev::PollCtx;
                            }
                        }
                        evs.append(&mut scn.events);
                        scn.events = evs;
                    }
                    scn.events.push(Ev::PollOp { sel: 65535 }); // the DISCONNECT is submitted
                    scn.events.push(Ev::CloneHandle);
                    scn.events.push(Ev::Start { h: 255, kind: OpKind::Ping, settle: false, solo: false });
                    scn.events.push(Ev::PollOp { sel: 65535 }); // the ping is queued behind it
                    scn.events.push(Ev::PollOp { sel: 0 }); // an older future polled late
                    scn.events.push(Ev::PollOp { sel: 32768 });
                    o.class("requests-queued-behind-the-user-disconnect");
                }
                // the caller of disconnect() gives up once its request is submitted (a lost race in a
                // select!, "fire and exit"): what run() does depends on the DISCONNECT, not on the caller
                let abandoned = h % 7 == 4 && matches!(cause, Cause::UserDisconnect(_));
                if abandoned {
                    if cfg.auto_settle {
                        cfg.auto_settle = false;
                        let n = scn.events.len() - 1;
                        let mut evs: Vec<Ev> = scn.events.drain(..n).flat_map(|e| [e, Ev::Settle]).collect();
                        evs.append(&mut scn.events);
                        scn.events = evs;
                    }
                    scn.events.push(Ev::PollOp { sel: 65535 }); // the DISCONNECT is submitted
                    if h % 2 == 0 {
                        scn.events.push(Ev::PollCtx); // .. and perhaps being written
                    }
                    scn.events.push(Ev::DropOp { sel: 65535 });
                    o.class("disconnect-future-dropped-after-submission");
                }
                scn.events.push(Ev::Settle);
                let out = run(&scn, &cfg);
                o.nontrivial = out.stats.cause_with_outstanding || out.stats.cause_with_stream || out.stats.oversized_disconnect;
                if out.stats.oversized_disconnect {
                    o.class("user-disconnect-refused-as-oversized");
                }
                o.class(format!("cause-{}", cause_name(cause)));
                if out.stats.cause_with_outstanding {
                    o.class("ops-outstanding-at-cause");
                }
                if out.stats.cause_with_stream {
                    o.class("stream-open-at-cause");
                }
                o.fail = failure_for(&out, &["C13/", "C05/wrong-completion/disconnect", "C05/not-completed/disconnect"]);
            }
            C13Case::Connect { connack, auth, cut, err, previous } => {
                o.class("connect-phase");
                if previous.is_some() {
                    o.class("connect-on-a-context-used-before");
                }
                o.fail = connect_phase(connack, auth.as_ref(), *cut, *err, previous.as_ref(), &mut o);
            }
        }
        o
    }
}

fn connect_phase(connack: &rc::Connack, auth: Option<&rc::Auth>, cut: Option<u16>, err: bool, previous: Option<&PrevConn>, o: &mut Outcome) -> Option<Failure> {
    use crate::world::World;
    let plan = WritePlan::default();
    let mut w = World::new();
    if let Some(p) = previous {
        // an earlier connection on the same Context, ended by the transport inside a packet; how
        // that connection ends is judged by the other cases, nothing is asserted here
        w.tick();
        w.start_connect(ConnectSpec::default());
        settle(&mut w, &plan, false);
        let first = rc::encode(
            &rc::Packet::Connack(rc::Connack { maximum_packet_size: if p.max_packet == 0 { None } else { Some(p.max_packet as u32) }, ..Default::default() }),
            &rc::Form::canonical(),
        );
        let partial: Vec<u8> = if p.reached_run {
            w.reader.feed(first);
            settle(&mut w, &plan, false);
            w.tick();
            w.start_run();
            settle(&mut w, &plan, false);
            let big = rc::encode(&rc::Packet::Publish(rc::Publish { qos: 0, topic: "previous/connection".into(), payload: vec![7; 18], ..Default::default() }), &rc::Form::canonical());
            big[..(p.tail as usize).min(big.len() - 1)].to_vec()
        } else {
            first[..(p.tail as usize).min(first.len() - 1)].to_vec()
        };
        w.tick();
        if !partial.is_empty() {
            w.reader.feed(partial);
            settle(&mut w, &plan, false);
        }
        if p.err { w.reader.set_err() } else { w.reader.set_eof() }
        settle(&mut w, &plan, false);
        if let Some(p) = first_panic(&w) {
            return Some(Failure { sig: format!("PANIC/{}", panic_sig(&p)), msg: p });
        }
        if !w.set_up_again() {
            return None; // the earlier call has not returned: C13's other cases / C04 judge that
        }
    }
    let base = w.conn_results.len();
    w.tick();
    let pkt = match auth {
        Some(a) => rc::Packet::Auth(a.clone()),
        None => rc::Packet::Connack(connack.clone()),
    };
    // the properties in the order of the standard's table, reversed, or rotated: no order is
    // prescribed
    let hform = connack.reason as usize + connack.user_props.len() + connack.reason_string.as_ref().map(|s| s.len()).unwrap_or(0) + cut.unwrap_or(0) as usize;
    let form = match hform % 3 {
        0 => rc::Form::canonical(),
        1 => rc::Form { order: (0u8..32).rev().collect(), short: false },
        _ => rc::Form { order: vec![3, 1, 4, 1, 5, 9, 2, 6, 5, 3, 5, 8, 9, 7, 9, 3, 2, 3, 8], short: false },
    };
    let bytes = rc::encode(&pkt, &form);
    // the client's own CONNECT may announce a Maximum Packet Size: the server's first answer is
    // then exactly that long (the largest it may send), one byte shorter, or much shorter
    let own_max = match hform % 4 {
        // (an AUTH challenge is followed by a CONNACK of another size: no tight limit there)
        0 | 1 if auth.is_some() => Some(1 << 20),
        0 => Some(bytes.len() as u32),
        1 => Some(bytes.len() as u32 + 1),
        2 => Some(1 << 20),
        _ => None,
    };
    let mut spec = if auth.is_some() {
        ConnectSpec { auth_method: Some("m".into()), auth_data: Some(vec![1]), ..Default::default() }
    } else {
        ConnectSpec::default()
    };
    spec.maximum_packet_size = own_max;
    w.start_connect(spec);
    settle(&mut w, &plan, false);
    // user properties are ordered: what was really sent (after the reordering) is what must come out
    let (connack_sent, auth_sent) = match rc::decode_one(&bytes, rc::Dir::FromServer) {
        Ok(rc::Packet::Connack(c)) => (c, None),
        Ok(rc::Packet::Auth(a)) => (connack.clone(), Some(a)),
        _ => (connack.clone(), auth.cloned()),
    };
    let connack = &connack_sent;
    let auth = auth_sent.as_ref();
    let cut_at = cut.map(|c| (c as usize).min(bytes.len()));
    if w.conn_results.len() > base {
        return Some(Failure { sig: "C13/connect/returned-before-response".into(), msg: format!("{:?}", w.conn_results) });
    }
    w.tick();
    match cut_at {
        Some(c) if c < bytes.len() => {
            o.nontrivial = true;
            o.class("transport-ends-before-response-complete");
            w.reader.feed(bytes[..c].to_vec());
            settle(&mut w, &plan, false);
            if w.conn_results.len() > base {
                return Some(Failure { sig: "C13/connect/returned-on-partial-response".into(), msg: format!("{:?} after {c} of {} bytes", w.conn_results, bytes.len()) });
            }
            if err { w.reader.set_err() } else { w.reader.set_eof() }
            settle(&mut w, &plan, false);
            if let Some(p) = first_panic(&w) {
                return Some(Failure { sig: format!("PANIC/{}", panic_sig(&p)), msg: p });
            }
            match w.conn_results.get(base..).and_then(|v| v.last()) {
                Some(ConnRes::Err(ErrSum::SocketClosed)) => None,
                other => Some(Failure {
                    sig: "C13/connect/transport-ended-first/not-socket-closed".into(),
                    msg: format!("connect() = {other:?} after the transport ended {c} bytes into the first response; want Err(SocketClosed)"),
                }),
            }
        }
        _ => {
            w.reader.feed(bytes);
            if cut_at.is_some() {
                o.class("transport-ends-right-after-response");
                if err { w.reader.set_err() } else { w.reader.set_eof() }
            }
            settle(&mut w, &plan, false);
            if let Some(p) = first_panic(&w) {
                return Some(Failure { sig: format!("PANIC/{}", panic_sig(&p)), msg: p });
            }
            let got = w.conn_results.get(base..).and_then(|v| v.last()).cloned();
            let want = match auth {
                Some(a) => ConnRes::Auth(auth_expected(a)),
                None => {
                    if connack.reason < 0x80 {
                        ConnRes::Connack(connack_expected(connack))
                    } else {
                        o.nontrivial = true;
                        o.class("connack-reason>=0x80");
                        ConnRes::Err(ErrSum::Connect {
                            reason: connack.reason,
                            reason_string: connack.reason_string.clone(),
                            server_reference: connack.server_reference.clone(),
                            user_props: connack.user_props.clone(),
                        })
                    }
                }
            };
            if got.as_ref() != Some(&want) {
                return Some(Failure {
                    sig: "C13/connect/wrong-outcome".into(),
                    msg: format!("connect() = {got:?}\n   want {want:?}"),
                });
            }
            // the authorize() leg: after an AUTH challenge the user answers with an AUTH of some
            // size and the server's CONNACK decides
            if auth.is_some() && cut_at.is_none() {
                let n = w.conn_results.len();
                w.tick();
                let data_len = 1 + (connack.reason as usize * 7 + connack.user_props.len() * 13) % 90;
                if !w.start_authorize(AuthSpec { reason: Some(0x18), method: Some("m".into()), data: Some(vec![3; data_len]), user_props: vec![] }) {
                    return None;
                }
                settle(&mut w, &plan, false);
                if w.conn_results.len() > n {
                    return Some(Failure {
                        sig: "C13/authorize/returned-before-response".into(),
                        msg: format!("authorize() with {data_len} bytes of authentication data returned {:?} before the server answered", w.conn_results.last()),
                    });
                }
                let cbytes = rc::encode(&rc::Packet::Connack(connack.clone()), &form);
                let connack_leg = match rc::decode_one(&cbytes, rc::Dir::FromServer) {
                    Ok(rc::Packet::Connack(c)) => c,
                    _ => connack.clone(),
                };
                let connack = &connack_leg;
                w.reader.feed(cbytes);
                settle(&mut w, &plan, false);
                if let Some(p) = first_panic(&w) {
                    return Some(Failure { sig: format!("PANIC/{}", panic_sig(&p)), msg: p });
                }
                let got = w.conn_results.get(n..).and_then(|v| v.last()).cloned();
                let want = if connack.reason < 0x80 {
                    ConnRes::Connack(connack_expected(connack))
                } else {
                    ConnRes::Err(ErrSum::Connect {
                        reason: connack.reason,
                        reason_string: connack.reason_string.clone(),
                        server_reference: connack.server_reference.clone(),
                        user_props: connack.user_props.clone(),
                    })
                };
                o.class("authorize-leg");
                if got.as_ref() != Some(&want) {
                    return Some(Failure {
                        sig: "C13/authorize/wrong-outcome".into(),
                        msg: format!("authorize() = {got:?}\n   want {want:?}"),
                    });
                }
            }
            None
        }
    }
}

// ---------------------------------------------------------------------------------
// C16

pub struct C16;

/// One read that fills the buffer the library offered exactly (512 / 1024 / 1536 bytes of whole
/// packets, or one byte more or less), and then silence: a wake-only executor and one that also
/// polls unwoken tasks must both hand every message to the stream.
fn c16_exact_fill(total: usize) -> Option<Failure> {
    use crate::world::World;
    let plan = WritePlan::default();
    let mut prints = vec![];
    let mut sent = 0usize;
    for sweeping in [false, true] {
        let mut w = World::new();
        if connect_and_run(&mut w, ConnectSpec::default(), &default_connack(), &plan).is_err() {
            return None;
        }
        let mut tr = Tracker::new();
        tr.skip_existing(&mut w);
        let s = w.start_op(0, OpSpec::Subscribe(tagged_subscribe(0, 1)))?;
        settle(&mut w, &plan, true);
        tr.update(&mut w);
        let (spid, sid) = (tr.pid(s)?, tr.sub_id(s)?);
        feed_packet(&mut w, &rc::Packet::Suback(rc::AckList { pid: spid, reasons: vec![0], ..Default::default() }), &rc::Form::canonical());
        settle(&mut w, &plan, true);
        let stream = w.make_stream(s)?;
        // whole packets adding up to exactly `total` bytes
        let mk = |n: usize| rc::encode(&rc::Packet::Publish(rc::Publish { qos: 0, topic: "c16/fill".into(), payload: vec![0x33; n], subscription_ids: vec![sid], ..Default::default() }), &rc::Form::canonical());
        let base = mk(0).len();
        let mut bytes = vec![];
        let mut count = 0usize;
        while total - bytes.len() >= 2 * (base + 40) {
            bytes.extend(mk(40));
            count += 1;
        }
        let rest = total - bytes.len();
        if rest < base {
            return None;
        }
        // the last packet takes what is left (its remaining length may need a second byte)
        let mut last = mk(rest - base);
        if last.len() != rest {
            last = mk(rest - base - 1);
        }
        if last.len() != rest {
            return None;
        }
        bytes.extend(last);
        count += 1;
        sent = count;
        w.tick();
        w.reader.feed(bytes);
        settle(&mut w, &plan, true);
        if sweeping {
            w.sweep(true);
            settle(&mut w, &plan, true);
        }
        if let Some(p) = first_panic(&w) {
            return Some(Failure { sig: format!("PANIC/{}", panic_sig(&p)), msg: p });
        }
        w.drain_stream(stream);
        prints.push((w.streams[stream].items.len(), w.reader.unread(), w.run_result.clone()));
    }
    if prints[0] != prints[1] || prints[0].0 != sent {
        return Some(Failure {
            sig: "C16/trace-differs/read-fills-the-buffer-exactly/stream-items".into(),
            msg: format!(
                "{sent} whole PUBLISH packets arriving in ONE read of exactly {total} bytes, then silence: wake-only executor -> {} stream items ({} bytes unread, run {:?}); executor that also polls unwoken tasks -> {} stream items ({} bytes unread, run {:?})",
                prints[0].0, prints[0].1, prints[0].2, prints[1].0, prints[1].1, prints[1].2
            ),
        });
    }
    None
}

/// One script, two executors: a subscription with its stream, `n` QoS 1 publishes in flight, then
/// the transport reports ONE error of the given kind, then the acknowledgements and a message
/// arrive. Executor A polls only
/// woken tasks; executor B additionally polls every task after every step.
/// The writer accepts nothing while the context has a packet to write (a request, or the PUBACK it
/// owes); `run()` is then polled `n` times although nothing woke it; the writer is released. The
/// polls are no-ops: `run()` is still pending, the packet goes out, the exchange completes.
fn c16_spurious_polls_during_a_blocked_write(n: usize, inbound: bool) -> Option<Failure> {
    use crate::world::World;
    let plan = WritePlan::default();
    let mut w = World::new();
    if connect_and_run(&mut w, ConnectSpec::default(), &default_connack(), &plan).is_err() {
        return None;
    }
    let mut tr = Tracker::new();
    tr.skip_existing(&mut w);
    let before = w.wire_len();
    w.writer.grant(0);
    w.tick();
    let op = if inbound {
        w.reader.feed(rc::encode(&rc::Packet::Publish(rc::Publish { qos: 1, pid: Some(77), topic: "c16/in".into(), payload: vec![1], ..Default::default() }), &rc::Form::canonical()));
        None
    } else {
        Some(w.start_op(0, OpSpec::Publish(tagged_publish(1, 1)))?)
    };
    settle(&mut w, &plan, true);
    if w.run_result.is_some() || !w.ctx_running() || w.wire_len() != before {
        return None;
    }
    for _ in 0..n {
        w.poll_ctx();
        if w.run_result.is_some() {
            break;
        }
    }
    if let Some(p) = first_panic(&w) {
        return Some(Failure { sig: format!("PANIC/{}", panic_sig(&p)), msg: p });
    }
    let how = format!("{n} polls of run() that nothing asked for, while the {} waited for a writer that accepted nothing", if inbound { "PUBACK for an inbound QoS 1 PUBLISH" } else { "PUBLISH of a QoS 1 publish" });
    if let Some(r) = &w.run_result {
        return Some(Failure { sig: "C16/spurious-poll-changed-state/run-returned-during-a-blocked-write".into(), msg: format!("run() returned {r:?} ({how})") });
    }
    w.writer.unlimited();
    w.tick();
    settle(&mut w, &plan, true);
    w.sync_wire();
    tr.update(&mut w);
    match op {
        None => {
            let acks = w.pkts.iter().filter(|p| matches!(&p.decoded, Ok(rc::Packet::Puback(a)) if a.pid == 77)).count();
            if acks != 1 {
                return Some(Failure { sig: "C16/spurious-poll-changed-state/acknowledgement".into(), msg: format!("{acks} PUBACK written once the writer was released ({how})") });
            }
        }
        Some(op) => {
            let Some(pid) = tr.pid(op) else {
                return Some(Failure { sig: "C16/spurious-poll-changed-state/request-not-written".into(), msg: format!("the PUBLISH did not reach the wire once the writer was released ({how})") });
            };
            feed_packet(&mut w, &rc::Packet::Puback(rc::Ack { pid, ..Default::default() }), &rc::Form::short());
            settle(&mut w, &plan, true);
            if w.ops[op].res != Some(OpRes::Ok) {
                return Some(Failure { sig: "C16/spurious-poll-changed-state/operation-results".into(), msg: format!("the publish ended as {:?} ({how})", w.ops[op].res) });
            }
        }
    }
    None
}

fn c16_transient_fault(kind: usize, n: usize) -> Option<Failure> {
    use crate::world::World;
    const KINDS: [std::io::ErrorKind; 7] = [
        std::io::ErrorKind::ConnectionReset,
        std::io::ErrorKind::Interrupted,
        std::io::ErrorKind::UnexpectedEof,
        std::io::ErrorKind::TimedOut,
        std::io::ErrorKind::ConnectionAborted,
        std::io::ErrorKind::Other,
        std::io::ErrorKind::BrokenPipe,
    ];
    let plan = WritePlan::default();
    let mut prints = vec![];
    for sweeping in [false, true] {
        let mut w = World::new();
        if connect_and_run(&mut w, ConnectSpec::default(), &default_connack(), &plan).is_err() {
            return None;
        }
        let step = |w: &mut World| {
            settle(w, &plan, true);
            if sweeping {
                w.sweep(true);
                settle(w, &plan, true);
            }
        };
        let mut tr = Tracker::new();
        tr.skip_existing(&mut w);
        let s = w.start_op(0, OpSpec::Subscribe(tagged_subscribe(0, 1))).unwrap();
        step(&mut w);
        tr.update(&mut w);
        let Some(spid) = tr.pid(s) else { return None };
        let sid = tr.sub_id(s);
        feed_packet(&mut w, &rc::Packet::Suback(rc::AckList { pid: spid, reasons: vec![0], ..Default::default() }), &rc::Form::canonical());
        step(&mut w);
        w.make_stream(s);
        let mut pids = vec![];
        for k in 0..n {
            let op = w.start_op(0, OpSpec::Publish(tagged_publish(10 + k, 1))).unwrap();
            step(&mut w);
            tr.update(&mut w);
            match tr.pid(op) {
                Some(p) => pids.push(p),
                None => return None,
            }
        }
        // the fault
        w.tick();
        w.reader.set_err_once(KINDS[kind % KINDS.len()]);
        step(&mut w);
        // traffic after the fault
        for p in &pids {
            feed_packet(&mut w, &rc::Packet::Puback(rc::Ack { pid: *p, ..Default::default() }), &rc::Form::short());
            step(&mut w);
        }
        feed_packet(
            &mut w,
            &rc::Packet::Publish(rc::Publish { qos: 1, pid: Some(77), topic: "after/fault".into(), payload: b"m".to_vec(), subscription_ids: sid.into_iter().collect(), ..Default::default() }),
            &rc::Form::canonical(),
        );
        step(&mut w);
        if let Some(p) = first_panic(&w) {
            return Some(Failure { sig: format!("PANIC/{}", panic_sig(&p)), msg: p });
        }
        for i in 0..w.streams.len() {
            w.drain_stream(i);
        }
        let results: Vec<_> = w.ops.iter().map(|o| o.res.clone()).collect();
        prints.push((w.writer.data().to_vec(), results, w.streams.iter().map(|s| s.items.len()).collect::<Vec<_>>(), w.run_result.clone()));
    }
    if prints[0] != prints[1] {
        let what = if prints[0].3 != prints[1].3 {
            "run"
        } else if prints[0].1 != prints[1].1 {
            "results"
        } else if prints[0].2 != prints[1].2 {
            "stream-items"
        } else {
            "wire"
        };
        return Some(Failure {
            sig: format!("C16/trace-differs/transient-read-fault/{what}"),
            msg: format!(
                "one transient read error ({:?}) with {n} QoS 1 publish(es) in flight: the wake-only executor ends with run()={:?}, results {:?}, stream items {:?}, {} bytes written; the executor that also polls unwoken tasks ends with run()={:?}, results {:?}, stream items {:?}, {} bytes written",
                KINDS[kind % KINDS.len()],
                prints[0].3, prints[0].1, prints[0].2, prints[0].0.len(),
                prints[1].3, prints[1].1, prints[1].2, prints[1].0.len()
            ),
        });
    }
    None
}

#[derive(Clone, Debug, Serialize, Deserialize)]
pub struct C16Case {
    pub scn: Scenario,
    /// positions (indices into the event list, modulo) where extra polls are inserted
    pub spurious: Vec<(u16, u8)>,
}

impl Property for C16 {
    const ID: &'static str = "C16";
    const RULE: &'static str = "quiescent-stepping scripts (operations of every kind, acknowledgements, inbound messages, stream polls; Receive Maximum 65535 so no quota-edge races) each executed under {wake-only; wake-only + sweep polling every task after every event; wake-only + spurious polls at generated positions; sweep-at-every-quiescent-point-must-change-nothing; streams polled only when woken + sweep must yield no item} x {whole-packet reads, 1-byte reads, reader capped at 3 bytes that returns Pending (self-waking) before every delivery} x {full writes, 3-byte partial writes with back-pressure}; per-source projections (packets per operation, acknowledgement sequence, every result, every stream's items, run()) must be equal across all runs. Non-trivial = >= 1 inbound packet split over reads and >= 1 operation completing";
    type Case = C16Case;

    fn strategy(tier: Tier) -> BoxedStrategy<C16Case> {
        let ev = prop_oneof![
            6 => start(vec![(1, OpKind::Pub0), (3, OpKind::Pub1), (3, OpKind::Pub2), (3, OpKind::Sub(0)), (1, OpKind::Unsub(0)), (1, OpKind::Ping)]),
            7 => ack(deco()),
            5 => in_publish((0u8..3).boxed(), Just(0u16).boxed(), target_any()),
            1 => (1u16..4, any::<bool>()).prop_map(|(pid, known)| Ev::In(Inbound::Pubrel { pid, known })),
            4 => stream_events(),
        ]
        .boxed();
        (
            scenario(Just(None).boxed(), ev, 1..tier.pick(30, 80)),
            vec((any::<u16>(), 0u8..3), 0..8),
        )
            .prop_map(|(mut scn, spurious)| {
                scn.id_offset = scn.id_offset.min(300);
                C16Case { scn, spurious }
            })
            .boxed()
    }

    fn cases(tier: Tier) -> u32 {
        tier.pick(3000, 40_000)
    }

    fn quick_profiles() -> &'static [&'static str] {
        &["checked", "release"]
    }

    /// long backlogs on one stream (more than any internal batch size), polled in bursts
    fn exhaustive(_tier: Tier, worker: usize, workers: usize) -> Box<dyn Iterator<Item = C16Case>> {
        let mut v = vec![];
        for (n, poll_every) in [(40usize, 0usize), (70, 0), (100, 7), (64, 33)] {
            let mut events = vec![
                Ev::Start { h: 0, kind: OpKind::Sub(0), settle: false, solo: false },
                Ev::In(Inbound::Ack { sel: 65535, deco: Deco::default() }),
                Ev::MakeStream { sel: 65535 },
            ];
            for k in 0..n {
                events.push(Ev::In(Inbound::Publish { qos: (k % 3) as u8, dup: false, retain: false, pid: 0, target: Target::Sub(0), payload_len: 1, props: (k % 5) as u8 }));
                if poll_every > 0 && k % poll_every == poll_every - 1 {
                    events.push(Ev::PollStream { sel: 0 });
                }
            }
            v.push(C16Case { scn: Scenario { receive_max: None, max_packet_size: None, id_offset: 0, prologue: 0, events }, spurious: vec![(1000, 0), (40000, 2)] });
        }
        // exactly 31 / 32 / 33 / 64 / 128 acknowledgements in ONE read (or in as many reads that are
        // all ready at once), then one more in a read of its own
        for n in [31usize, 32, 33, 64, 128] {
            for plan in [gen::ChunkPlan::Whole, gen::ChunkPlan::PerPacket] {
                let mut events = vec![];
                for _ in 0..=n {
                    events.push(Ev::Start { h: 0, kind: OpKind::Pub1, settle: false, solo: false });
                }
                events.push(Ev::Settle);
                events.push(Ev::Burst { items: (0..n).map(|_| Inbound::Ack { sel: 0, deco: Deco::default() }).collect(), plan: plan.clone(), settle_between: false });
                events.push(Ev::In(Inbound::Ack { sel: 0, deco: Deco::default() }));
                v.push(C16Case { scn: Scenario { receive_max: None, max_packet_size: None, id_offset: 0, prologue: 0, events }, spurious: vec![(30000, 0)] });
            }
        }
        // hundreds to a thousand requests outstanding, one QoS 2 publish abandoned among them, and a
        // poll of run() that nothing asked for between the cancellation and the PUBREC
        for n in [70usize, 300, 1100] {
            let mut events = vec![];
            for _ in 0..n {
                events.push(Ev::Start { h: 0, kind: OpKind::Ping, settle: false, solo: false });
            }
            events.push(Ev::Start { h: 0, kind: OpKind::Pub2, settle: false, solo: false });
            events.push(Ev::Settle);
            events.push(Ev::DropOp { sel: 65535 });
            let at = events.len();
            events.push(Ev::In(Inbound::Ack { sel: 65535, deco: Deco::default() }));
            events.push(Ev::Settle);
            events.push(Ev::In(Inbound::Ack { sel: 65535, deco: Deco::default() }));
            events.push(Ev::Settle);
            let pos = ((at << 16) / (events.len() + 1) + 1) as u16;
            v.push(C16Case { scn: Scenario { receive_max: Some(2), max_packet_size: None, id_offset: 0, prologue: 0, events }, spurious: vec![(pos, 0)] });
        }
        Box::new(v.into_iter().enumerate().filter(move |(i, _)| i % workers == worker).map(|(_, c)| c))
    }

    fn assumptions() -> Vec<String> {
        vec![
            "DropStream is not used after messages may be buffered differently; stream polls in the script are part of every run".into(),
            "relative wire order of acknowledgements and unrelated requests is not compared (per-source projections only)".into(),
        ]
    }

    fn run(case: &C16Case) -> Outcome {
        let mut o = Outcome::ok();
        // DropStream makes "what was lost" depend on buffering: remove it here
        let base = Scenario {
            receive_max: None,
            max_packet_size: case.scn.max_packet_size,
            id_offset: case.scn.id_offset,
            prologue: case.scn.prologue,
            events: case.scn.events.iter().filter(|e| !matches!(e, Ev::DropStream { .. })).cloned().collect(),
        };
        // a third of the scripts end with run() returning (end-of-stream / server DISCONNECT) while
        // a ping and whatever else is outstanding stay pending and the Context stays alive: polls
        // after that point must not change anything either
        let mut base = base;
        let hh = case_hash(case);
        if hh % 3 == 0 {
            base.events.push(Ev::Start { h: 0, kind: OpKind::Ping, settle: false, solo: false });
            base.events.push(Ev::Terminate(match (hh / 3) % 3 {
                0 => Cause::Eof,
                1 => Cause::ServerDisconnect(rc::Disconnect { reason: 0x8b, ..Default::default() }, true),
                _ => Cause::ServerDisconnect(rc::Disconnect::default(), false),
            }));
            base.events.push(Ev::Settle);
            o.class("script-ends-with-run-returning");
        }
        let mut with_spurious = base.clone();
        if hh % 3 == 0 {
            // un-woken polls of the newest and the oldest operation after run() has returned
            with_spurious.events.push(Ev::PollOp { sel: 65535 });
            with_spurious.events.push(Ev::PollOp { sel: 0 });
            with_spurious.events.push(Ev::Settle);
        }
        for (pos, what) in &case.spurious {
            let at = ((*pos as usize) * (with_spurious.events.len() + 1)) >> 16;
            let ev = match what {
                0 => Ev::PollCtx,
                1 => Ev::PollOp { sel: *pos },
                _ => Ev::Sweep,
            };
            with_spurious.events.insert(at, ev);
        }
        let reference = run(&base, &SimCfg::default());
        if let Some(f) = failure_for(&reference, &["C16/", "C03/"]) {
            o.fail = Some(f);
            return o;
        }
        let mut completions = reference.stats.completions;
        let mut split = 0;
        let writes = [WritePlan::default(), WritePlan { per_call: 3, stall: Some(5) }];
        for (di, disc) in ["wake-only", "sweep-after-event", "spurious-polls", "sweep-at-quiescence", "streams-polled-only-when-woken"].iter().enumerate() {
            for rd in [0u16, 1, 2] {
                let chunk = if rd == 1 { 1 } else { 0 };
                for (wi, wp) in writes.iter().enumerate() {
                    if di == 0 && rd == 0 && wi == 0 {
                        continue;
                    }
                    let cfg = SimCfg {
                        auto_settle: true,
                        sweep_after_event: di == 1,
                        read_cap: if rd == 2 { 3 } else { 0 },
                        read_yield: rd == 2,
                        read_chunk: chunk,
                        write: wp.clone(),
                        drain_streams: di == 4,
                        check_sweep_noop: di == 3 || di == 4,
                    };
                    let scn = if di == 2 { &with_spurious } else { &base };
                    let out = run(scn, &cfg);
                    completions = completions.max(out.stats.completions);
                    split = split.max(out.stats.split_packets);
                    let label = format!("{disc}/read-{}/write-{}", ["whole", "1-byte", "cap3+yielding-reader"][rd as usize], if wi == 0 { "full" } else { "partial+pending" });
                    if let Some(mut f) = failure_for(&out, &["C16/", "C03/"]) {
                        f.msg = format!("[{label}] {}", f.msg);
                        o.fail = Some(f);
                        return o;
                    }
                    if out.proj != reference.proj {
                        let what = proj_diff(&reference.proj, &out.proj);
                        o.fail = Some(Failure {
                            sig: format!("C16/trace-differs/{disc}/{what}"),
                            msg: format!("[{label}] observable trace differs from the wake-only / whole-packet / full-write run in {what}:\n   reference {:?}\n   this run  {:?}", proj_part(&reference.proj, what), proj_part(&out.proj, what)),
                        });
                        return o;
                    }
                }
            }
        }
        // a transient transport fault (every error kind) in the middle of traffic: whatever the
        // library makes of it, wake-only and sweeping executors must see the same
        let h = case_hash(case);
        if let Some(f) = c16_transient_fault((h % 7) as usize, 1 + (h / 7 % 3) as usize) {
            o.fail = Some(f);
            return o;
        }
        o.class("transient-read-fault-script");
        if let Some(f) = c16_exact_fill([512usize, 1024, 1536, 511, 513, 2048][(h / 63 % 6) as usize]) {
            o.fail = Some(f);
            return o;
        }
        o.class("read-fills-the-buffer-exactly-script");
        if let Some(f) = c16_spurious_polls_during_a_blocked_write([1usize, 50, 1500, 5000][(h / 11 % 4) as usize], h / 44 % 2 == 0) {
            o.fail = Some(f);
            return o;
        }
        o.class("spurious-polls-during-a-blocked-write-script");
        o.nontrivial = split >= 1 && completions >= 1;
        if split > 0 {
            o.class("inbound-packet-split-over-reads");
        }
        if completions > 0 {
            o.class("operation-completed");
        }
        o
    }
}

fn proj_diff(a: &Projections, b: &Projections) -> &'static str {
    if a.op_results != b.op_results {
        "operation-results"
    } else if a.op_packets != b.op_packets {
        "packets-per-operation"
    } else if a.client_acks != b.client_acks {
        "acknowledgements-written"
    } else if a.stream_items != b.stream_items {
        "stream-items"
    } else if a.stream_ended != b.stream_ended {
        "stream-end"
    } else if a.unattributed != b.unattributed || a.malformed != b.malformed {
        "stray-or-malformed-client-packets"
    } else {
        "run-result"
    }
}

fn proj_part(p: &Projections, what: &str) -> String {
    match what {
        "operation-results" => format!("{:?}", p.op_results),
        "packets-per-operation" => format!("{:?}", p.op_packets),
        "acknowledgements-written" => format!("{:?}", p.client_acks),
        "stream-items" => format!("{:?}", p.stream_items.iter().map(|(o, v)| (*o, v.iter().map(|m| m.topic.clone()).collect::<Vec<_>>())).collect::<Vec<_>>()),
        "stream-end" => format!("{:?}", p.stream_ended),
        "stray-or-malformed-client-packets" => format!("unattributed {} malformed {}", p.unattributed, p.malformed),
        _ => format!("{:?}", p.run_result),
    }
}
