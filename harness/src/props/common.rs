//! Helpers shared by the property modules.

use crate::api::*;
use crate::driver::Outcome;
use crate::refcodec as rc;
use crate::world::*;
use serde::{Deserialize, Serialize};

/// How the AsyncWrite half accepts bytes.
#[derive(Clone, Debug, PartialEq, Eq, Serialize, Deserialize, Default)]
pub struct WritePlan {
    /// max bytes per poll_write (0 = all)
    pub per_call: u16,
    /// when Some(g): the writer starts with 0 credit and every time it blocks the script
    /// grants g more bytes (Pending before any byte and between partial writes)
    pub stall: Option<u16>,
}

impl WritePlan {
    pub fn fragmented(&self) -> bool {
        self.per_call > 0 || self.stall.is_some()
    }
    pub fn install(&self, w: &World) {
        let mut s = w.writer.0.borrow_mut();
        s.per_call = self.per_call as usize;
        s.credit = self.stall.map(|_| 0);
    }
}

/// Quiesce; while the writer is blocked on back-pressure grant more credit.
pub fn settle(w: &mut World, plan: &WritePlan, streams: bool) {
    let mut guard = 0usize;
    loop {
        w.quiesce(streams);
        if w.budget_exhausted {
            return; // a self-waking or never-finishing loop: reported as LIVELOCK by the caller
        }
        if w.writer.blocked() {
            if let Some(g) = plan.stall {
                w.writer.grant(g.max(1) as usize);
                guard += 1;
                if guard > 10_000_000 {
                    w.budget_exhausted = true;
                    return;
                }
                continue;
            }
        }
        return;
    }
}

pub fn default_connack() -> rc::Connack {
    rc::Connack::default()
}

/// connect() with `spec`, answer with `connack`, check it is accepted, start run().
/// Err(outcome) describes a failure of this prologue.
pub fn connect_and_run(
    w: &mut World,
    spec: ConnectSpec,
    connack: &rc::Connack,
    plan: &WritePlan,
) -> Result<(), String> {
    plan.install(w);
    w.tick();
    if !w.start_connect(spec) {
        return Err("harness: context not idle".into());
    }
    settle(w, plan, false);
    w.tick();
    w.reader
        .feed(rc::encode(&rc::Packet::Connack(connack.clone()), &rc::Form::canonical()));
    settle(w, plan, false);
    match w.conn_results.last() {
        Some(ConnRes::Connack(_)) => {}
        other => {
            return Err(format!(
                "connect() prologue: expected ConnectRsp, got {other:?}; panics={:?}",
                w.panics
            ))
        }
    }
    w.tick();
    if !w.start_run() {
        return Err("harness: cannot start run()".into());
    }
    settle(w, plan, false);
    Ok(())
}

/// `connect_and_run` with a prologue that varies in ways no listed property depends on:
/// bit 0: CONNACK says Session Present; bit 1: CONNACK carries unrelated properties (reason
/// string, user properties, topic alias maximum, server keep alive, response information, assigned
/// client identifier); bit 2: the CONNACK arrives through an AUTH exchange (connect -> AUTH ->
/// authorize -> CONNACK); bit 3: the CONNACK's properties are written in reverse order; bit 4: the
/// client's own CONNECT announces limits for the *inbound* direction (Receive Maximum 1000, Maximum
/// Packet Size 1 MiB, topic alias maximum, keep alive, will, credentials), which never limit what
/// it may send; bit 7 (scenario interpreter only): the first operations of the history are issued
/// before connect() is called; bit 6: the Context has already served (and lost) an earlier connection; bit 5 (with bit 4; only for histories without inbound PUBLISH packets, where the
/// scripted broker cannot exceed them): those limits are 1 and 256 bytes.
pub fn connect_and_run_v(w: &mut World, spec: ConnectSpec, connack: &rc::Connack, plan: &WritePlan, variant: u8) -> Result<(), String> {
    if variant == 0 {
        return connect_and_run(w, spec, connack, plan);
    }
    let mut spec = spec;
    let mut connack = connack.clone();
    if variant & 1 != 0 {
        connack.session_present = true;
    }
    if variant & 2 != 0 {
        connack.reason_string.get_or_insert("welcome".into());
        connack.user_props.push(("server".into(), "mock".into()));
        connack.topic_alias_maximum.get_or_insert(7);
        connack.server_keep_alive.get_or_insert(30);
        connack.response_information.get_or_insert("resp/info".into());
        connack.assigned_client_id.get_or_insert("assigned-1".into());
        // capabilities the server lacks: none of them entitles the client to alter or refuse what
        // the caller asked for (the listed properties are literal about that)
        connack.wildcard_available.get_or_insert(variant & 1 == 0);
        connack.shared_available.get_or_insert(variant & 1 == 0);
        if variant & 1 != 0 {
            connack.retain_available.get_or_insert(false);
            connack.maximum_qos.get_or_insert(((variant >> 2) & 1) as u8);
            connack.topic_alias_maximum = Some(0);
        }
    }
    if variant & 16 != 0 {
        // generous, so that the scripted broker never exceeds what the client asked for
        spec.receive_maximum.get_or_insert(if variant & 32 != 0 { 1 } else { 1000 });
        spec.maximum_packet_size.get_or_insert(if variant & 32 != 0 { 256 } else { 1 << 20 });
        spec.topic_alias_maximum.get_or_insert(3);
        spec.keep_alive.get_or_insert(5);
        spec.username.get_or_insert("user".into());
        spec.password.get_or_insert(b"pw".to_vec());
        if spec.will.is_none() {
            spec.will = Some(WillSpec { topic: "will/t".into(), payload: b"gone".to_vec(), qos: Some(1), ..Default::default() });
        }
        spec.user_props.push(("client".into(), "harness".into()));
    }
    let form = if variant & 8 != 0 { rc::Form { order: (0u8..32).rev().collect(), short: false } } else { rc::Form::canonical() };
    if variant & 64 != 0 {
        // the Context has been used before: an earlier connection on it ended three bytes into an
        // inbound packet; fresh transport halves are then given to the same Context (the plain
        // production path: no session is resumed)
        plan.install(w);
        w.tick();
        // the earlier CONNECT announced tiny client-side limits; none of them concerns the
        // connection under test, whose CONNECT says something else (or nothing)
        let earlier = ConnectSpec {
            receive_maximum: Some(1),
            maximum_packet_size: Some(64),
            topic_alias_maximum: Some(1),
            keep_alive: Some(1),
            session_expiry: Some(7),
            ..Default::default()
        };
        if !w.start_connect(earlier) {
            return Err("harness: context not idle".into());
        }
        settle(w, plan, false);
        w.reader.feed(rc::encode(&rc::Packet::Connack(rc::Connack::default()), &rc::Form::canonical()));
        settle(w, plan, false);
        if matches!(w.conn_results.last(), Some(ConnRes::Connack(_))) {
            w.tick();
            w.start_run();
            settle(w, plan, false);
            // how it ended (selected by the low bits): end-of-stream inside a packet, or a write
            // error 0..3 bytes into a PUBACK / inside a PUBREC / inside a PUBCOMP
            let way = variant & 7;
            let publish = |qos: u8, pid: u16| rc::encode(&rc::Packet::Publish(rc::Publish { qos, pid: Some(pid), topic: "earlier".into(), payload: vec![1], ..Default::default() }), &rc::Form::canonical());
            match way {
                0 | 1 => w.reader.feed(vec![0x30, 0x0a, 0x00]),
                2..=5 => {
                    // two messages in one read: the connection dies at the first PUBACK while the
                    // second message is still buffered behind it
                    w.writer.set_fault(crate::mockio::WriteFault::ErrAt(w.wire_len() + (way as usize - 2)));
                    let mut both = publish(1, 5);
                    both.extend(publish(1, 8));
                    w.reader.feed(both);
                }
                6 => {
                    w.reader.feed(publish(2, 6));
                    settle(w, plan, false);
                    w.writer.set_fault(crate::mockio::WriteFault::ErrAt(w.wire_len() + 1));
                    w.reader.feed(rc::encode(&rc::Packet::Pubrel(rc::Ack { pid: 6, ..Default::default() }), &rc::Form::short()));
                }
                _ => {
                    w.writer.set_fault(crate::mockio::WriteFault::ErrAt(w.wire_len() + 2));
                    w.reader.feed(publish(2, 7));
                }
            }
            settle(w, plan, false);
        }
        w.reader.set_eof();
        settle(w, plan, false);
        if !w.set_up_again() {
            return Err(format!("prologue: the earlier connection on this Context did not end at end-of-stream (run {:?})", w.run_result));
        }
    }
    plan.install(w);
    w.tick();
    if variant & 4 != 0 {
        spec.auth_method = Some("m".into());
        spec.auth_data = Some(vec![1]);
        connack.auth_method = Some("m".into());
        if !w.start_connect(spec) {
            return Err("harness: context not idle".into());
        }
        settle(w, plan, false);
        w.tick();
        w.reader.feed(rc::encode(
            &rc::Packet::Auth(rc::Auth { reason: 0x18, method: Some("m".into()), data: Some(vec![2]), ..Default::default() }),
            &rc::Form::canonical(),
        ));
        settle(w, plan, false);
        if !matches!(w.conn_results.last(), Some(ConnRes::Auth(_))) {
            return Err(format!("connect() prologue (extended authentication): expected AuthRsp, got {:?}; panics={:?}", w.conn_results.last(), w.panics));
        }
        w.tick();
        if !w.start_authorize(AuthSpec { reason: Some(0x18), method: Some("m".into()), data: Some(vec![3]), user_props: vec![] }) {
            return Err("harness: cannot start authorize()".into());
        }
        settle(w, plan, false);
    } else {
        if !w.start_connect(spec) {
            return Err("harness: context not idle".into());
        }
        settle(w, plan, false);
    }
    w.tick();
    w.reader.feed(rc::encode(&rc::Packet::Connack(connack), &form));
    settle(w, plan, false);
    match w.conn_results.last() {
        Some(ConnRes::Connack(_)) => {}
        other => return Err(format!("connect() prologue (variant {variant:#x}): expected ConnectRsp, got {other:?}; panics={:?}", w.panics)),
    }
    w.tick();
    if !w.start_run() {
        return Err("harness: cannot start run()".into());
    }
    settle(w, plan, false);
    Ok(())
}

/// generator for the prologue variant: half of the cases use the plain prologue
pub fn prologue_variant() -> proptest::strategy::BoxedStrategy<u8> {
    use proptest::prelude::*;
    prop_oneof![3 => Just(0u8), 3 => 0u8..32, 1 => (0u8..32).prop_map(|v| v | 64), 2 => (0u8..32).prop_map(|v| v | 128)].boxed()
}

/// `prologue_variant` for histories in which the broker sends no PUBLISH: the client-side limits
/// may then be tiny
pub fn prologue_variant_no_inbound() -> proptest::strategy::BoxedStrategy<u8> {
    use proptest::prelude::*;
    prop_oneof![3 => Just(0u8), 3 => 0u8..32, 2 => (0u8..16).prop_map(|v| v | 48), 1 => (0u8..32).prop_map(|v| v | 64), 2 => (0u8..64).prop_map(|v| v | 128)].boxed()
}

pub fn first_panic(w: &World) -> Option<String> {
    w.panics.first().map(|(who, m)| format!("panic in {who}: {m}"))
}

/// normalised panic signature: message without numbers that vary
pub fn panic_sig(msg: &str) -> String {
    if msg.starts_with("VERIF-SPIN") {
        // raised by the mock transport, not by the library: a loop that never yields
        return "spins-after-transport-end".into();
    }
    let m = msg.split(" @ ").next().unwrap_or(msg);
    let loc = msg.split(" @ ").nth(1).unwrap_or("");
    let file = loc.rsplit('/').next().unwrap_or(loc);
    let file = file.split(':').next().unwrap_or(file);
    let mut s: String = m
        .chars()
        .map(|c| if c.is_ascii_digit() { '#' } else { c })
        .collect();
    s.truncate(60);
    format!("{s}@{file}")
}

pub fn hex(b: &[u8]) -> String {
    let mut s = String::new();
    for (i, x) in b.iter().enumerate() {
        if i >= 48 {
            s.push_str(&format!("..(+{})", b.len() - i));
            break;
        }
        s.push_str(&format!("{x:02x}"));
    }
    s
}

/// Shorten long strings/arrays inside a JSON value (evidence samples only).
pub fn abbreviate(v: &serde_json::Value) -> serde_json::Value {
    use serde_json::Value::*;
    match v {
        String(s) if s.len() > 48 => {
            let head: std::string::String = s.chars().take(24).collect();
            String(format!("{head}…({} bytes)", s.len()))
        }
        Array(a) if a.len() > 24 && a.iter().all(|x| x.is_number()) => {
            let mut h: Vec<serde_json::Value> = a.iter().take(8).cloned().collect();
            h.push(String(format!("…({} numbers)", a.len())));
            Array(h)
        }
        Array(a) => Array(a.iter().map(abbreviate).collect()),
        Object(o) => Object(o.iter().map(|(k, v)| (k.clone(), abbreviate(v))).collect()),
        other => other.clone(),
    }
}

pub fn outcome_fail(sig: impl Into<String>, msg: impl Into<String>) -> Outcome {
    Outcome::fail(sig, msg)
}

// ------------------------------------------------------------------------------------
// attribution of client packets on the wire to the operations that caused them

#[derive(Clone, Debug, Default)]
pub struct OpWire {
    pub pid: Option<u16>,
    pub sub_id: Option<u32>,
    pub pkt_index: usize,
    pub pubrel_index: Option<usize>,
    /// number of PUBREL packets seen for this operation
    pub pubrels: usize,
}

#[derive(Default)]
pub struct Tracker {
    seen: usize,
    pub map: Vec<Option<OpWire>>,
    /// acknowledgements the client wrote for inbound traffic: (type nibble, pid, pkt index)
    pub client_acks: Vec<(u8, u16, usize)>,
    /// packets that could not be attributed to any operation: (pkt index, description)
    pub unattributed: Vec<(usize, String)>,
    /// packets the strict decoder rejects: (pkt index, reason)
    pub malformed: Vec<(usize, String)>,
}

impl Tracker {
    pub fn new() -> Self {
        Self::default()
    }

    /// Skip everything written so far (e.g. the CONNECT of the prologue).
    pub fn skip_existing(&mut self, w: &mut World) {
        w.sync_wire();
        self.seen = w.pkts.len();
    }

    /// Skip the handshake only (CONNECT / AUTH packets at the start of the wire).
    pub fn skip_handshake(&mut self, w: &mut World) {
        w.sync_wire();
        self.seen = w.pkts.iter().take_while(|p| matches!(&p.decoded, Ok(rc::Packet::Connect(_)) | Ok(rc::Packet::Auth(_)))).count();
    }

    pub fn update(&mut self, w: &mut World) {
        w.sync_wire();
        while self.map.len() < w.ops.len() {
            self.map.push(None);
        }
        // submission order = order of first poll
        let mut order: Vec<usize> = (0..w.ops.len())
            .filter(|i| w.ops[*i].first_polled_step.is_some())
            .collect();
        order.sort_by_key(|i| (w.ops[*i].first_polled_step.unwrap(), *i));
        for k in self.seen..w.pkts.len() {
            let pkt = match &w.pkts[k].decoded {
                Ok(p) => p.clone(),
                Err(e) => {
                    self.malformed.push((k, format!("{}: {}", e.0, hex(&w.writer.0.borrow().data[w.pkts[k].start..w.pkts[k].end]))));
                    continue;
                }
            };
            let mut hit = None;
            match &pkt {
                rc::Packet::Publish(p) => {
                    for &i in &order {
                        if self.map[i].is_some() {
                            continue;
                        }
                        if let OpSpec::Publish(s) = &w.ops[i].spec {
                            if s.topic.as_deref() == Some(p.topic.as_str())
                                && s.payload.clone().unwrap_or_default() == p.payload
                                && s.qos.unwrap_or(0) == p.qos
                            {
                                hit = Some(i);
                                break;
                            }
                        }
                    }
                    match hit {
                        Some(i) => {
                            self.map[i] = Some(OpWire {
                                pid: p.pid,
                                pkt_index: k,
                                ..Default::default()
                            })
                        }
                        None => self.unattributed.push((k, format!("{pkt:?}"))),
                    }
                }
                rc::Packet::Subscribe(sp) => {
                    for &i in &order {
                        if self.map[i].is_some() {
                            continue;
                        }
                        if let OpSpec::Subscribe(s) = &w.ops[i].spec {
                            if s.filters.len() == sp.filters.len()
                                && s.filters.iter().zip(sp.filters.iter()).all(|(a, b)| a.0 == b.0)
                            {
                                hit = Some(i);
                                break;
                            }
                        }
                    }
                    match hit {
                        Some(i) => {
                            self.map[i] = Some(OpWire {
                                pid: Some(sp.pid),
                                sub_id: sp.sub_id,
                                pkt_index: k,
                                ..Default::default()
                            })
                        }
                        None => self.unattributed.push((k, format!("{pkt:?}"))),
                    }
                }
                rc::Packet::Unsubscribe(up) => {
                    for &i in &order {
                        if self.map[i].is_some() {
                            continue;
                        }
                        if let OpSpec::Unsubscribe(s) = &w.ops[i].spec {
                            if s.filters == up.filters {
                                hit = Some(i);
                                break;
                            }
                        }
                    }
                    match hit {
                        Some(i) => {
                            self.map[i] = Some(OpWire {
                                pid: Some(up.pid),
                                pkt_index: k,
                                ..Default::default()
                            })
                        }
                        None => self.unattributed.push((k, format!("{pkt:?}"))),
                    }
                }
                rc::Packet::Pingreq | rc::Packet::Disconnect(_) => {
                    let want_ping = matches!(pkt, rc::Packet::Pingreq);
                    for &i in &order {
                        if self.map[i].is_some() {
                            continue;
                        }
                        let is = match &w.ops[i].spec {
                            OpSpec::Ping => want_ping,
                            OpSpec::Disconnect(_) => !want_ping,
                            _ => false,
                        };
                        if is {
                            hit = Some(i);
                            break;
                        }
                    }
                    match hit {
                        Some(i) => {
                            self.map[i] = Some(OpWire {
                                pkt_index: k,
                                ..Default::default()
                            })
                        }
                        None => self.unattributed.push((k, format!("{pkt:?}"))),
                    }
                }
                rc::Packet::Pubrel(a) => {
                    let mut found = false;
                    for i in 0..self.map.len() {
                        if let Some(m) = self.map[i].as_mut() {
                            if m.pid == Some(a.pid) && w.ops[i].spec.qos() == 2 {
                                // the most recent operation using this identifier
                                hit = Some(i);
                            }
                        }
                    }
                    if let Some(i) = hit {
                        let m = self.map[i].as_mut().unwrap();
                        m.pubrels += 1;
                        if m.pubrel_index.is_none() {
                            m.pubrel_index = Some(k);
                        }
                        found = true;
                    }
                    if !found {
                        self.unattributed.push((k, format!("{pkt:?}")));
                    }
                }
                rc::Packet::Puback(a) => self.client_acks.push((4, a.pid, k)),
                rc::Packet::Pubrec(a) => self.client_acks.push((5, a.pid, k)),
                rc::Packet::Pubcomp(a) => self.client_acks.push((7, a.pid, k)),
                other => self.unattributed.push((k, format!("{other:?}"))),
            }
        }
        self.seen = w.pkts.len();
    }

    pub fn pid(&self, op: usize) -> Option<u16> {
        self.map.get(op).and_then(|m| m.as_ref()).and_then(|m| m.pid)
    }
    pub fn sub_id(&self, op: usize) -> Option<u32> {
        self.map.get(op).and_then(|m| m.as_ref()).and_then(|m| m.sub_id)
    }
    pub fn on_wire(&self, op: usize) -> bool {
        self.map.get(op).map(|m| m.is_some()).unwrap_or(false)
    }
}

pub fn feed_packet(w: &mut World, p: &rc::Packet, form: &rc::Form) {
    w.tick();
    w.reader.feed(rc::encode(p, form));
}

/// A publish spec whose topic/payload carry a unique tag.
pub fn tagged_publish(tag: usize, qos: u8) -> PublishSpec {
    PublishSpec {
        qos: Some(qos),
        retain: if tag % 3 == 1 { Some(true) } else { None },
        topic: Some(format!("t/{tag}")),
        // every fourth publish is ~50 bytes long: under a small server Maximum Packet Size
        // (18..42 in the histories) it is refused locally, the others are not
        payload: Some(if tag % 4 == 3 { format!("p{tag}{}", ".".repeat(36)) } else { format!("p{tag}") }.into_bytes()),
        ..Default::default()
    }
}

pub fn tagged_subscribe(tag: usize, nfilters: usize) -> SubscribeSpec {
    SubscribeSpec {
        filters: (0..nfilters.max(1))
            .map(|j| (format!("f/{tag}/{j}"), SubOptsSpec::default()))
            .collect(),
        user_props: vec![],
    }
}

pub fn tagged_unsubscribe(tag: usize, nfilters: usize) -> UnsubscribeSpec {
    UnsubscribeSpec {
        filters: (0..nfilters.max(1)).map(|j| format!("u/{tag}/{j}")).collect(),
        user_props: vec![],
    }
}
