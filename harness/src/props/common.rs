//! Helpers shared by the property modules.

use crate::api::*;
use crate::driver::Outcome;
use crate::refcodec as rc;
use crate::world::*;
use serde::{Deserialize, Serialize};

/// How the AsyncWrite half accepts bytes.
#[derive(Clone, Debug, PartialEq, Eq, Serialize, Deserialize, Default)]
pub struct WritePlan {
    /// max bytes per poll_write (0 = all)
    pub per_call: u16,
    /// when Some(g): the writer starts with 0 credit and every time it blocks the script
    /// grants g more bytes (Pending before any byte and between partial writes)
    pub stall: Option<u16>,
}

impl WritePlan {
    pub fn fragmented(&self) -> bool {
        self.per_call > 0 || self.stall.is_some()
    }
    pub fn install(&self, w: &World) {
        let mut s = w.writer.0.borrow_mut();
        s.per_call = self.per_call as usize;
        s.credit = self.stall.map(|_| 0);
    }
}

/// Quiesce; while the writer is blocked on back-pressure grant more credit.
pub fn settle(w: &mut World, plan: &WritePlan, streams: bool) {
    let mut guard = 0usize;
    loop {
        w.quiesce(streams);
        if w.writer.blocked() {
            if let Some(g) = plan.stall {
                w.writer.grant(g.max(1) as usize);
                guard += 1;
                if guard > 10_000_000 {
                    w.budget_exhausted = true;
                    return;
                }
                continue;
            }
        }
        return;
    }
}

pub fn default_connack() -> rc::Connack {
    rc::Connack::default()
}

/// connect() with `spec`, answer with `connack`, check it is accepted, start run().
/// Err(outcome) describes a failure of this prologue.
pub fn connect_and_run(
    w: &mut World,
    spec: ConnectSpec,
    connack: &rc::Connack,
    plan: &WritePlan,
) -> Result<(), String> {
    plan.install(w);
    w.tick();
    if !w.start_connect(spec) {
        return Err("harness: context not idle".into());
    }
    settle(w, plan, false);
    w.tick();
    w.reader
        .feed(rc::encode(&rc::Packet::Connack(connack.clone()), &rc::Form::canonical()));
    settle(w, plan, false);
    match w.conn_results.last() {
        Some(ConnRes::Connack(_)) => {}
        other => {
            return Err(format!(
                "connect() prologue: expected ConnectRsp, got {other:?}; panics={:?}",
                w.panics
            ))
        }
    }
    w.tick();
    if !w.start_run() {
        return Err("harness: cannot start run()".into());
    }
    settle(w, plan, false);
    Ok(())
}

pub fn first_panic(w: &World) -> Option<String> {
    w.panics.first().map(|(who, m)| format!("panic in {who}: {m}"))
}

/// normalised panic signature: message without numbers that vary
pub fn panic_sig(msg: &str) -> String {
    let m = msg.split(" @ ").next().unwrap_or(msg);
    let loc = msg.split(" @ ").nth(1).unwrap_or("");
    let file = loc.rsplit('/').next().unwrap_or(loc);
    let file = file.split(':').next().unwrap_or(file);
    let mut s: String = m
        .chars()
        .map(|c| if c.is_ascii_digit() { '#' } else { c })
        .collect();
    s.truncate(60);
    format!("{s}@{file}")
}

pub fn hex(b: &[u8]) -> String {
    let mut s = String::new();
    for (i, x) in b.iter().enumerate() {
        if i >= 48 {
            s.push_str(&format!("..(+{})", b.len() - i));
            break;
        }
        s.push_str(&format!("{x:02x}"));
    }
    s
}

/// Shorten long strings/arrays inside a JSON value (evidence samples only).
pub fn abbreviate(v: &serde_json::Value) -> serde_json::Value {
    use serde_json::Value::*;
    match v {
        String(s) if s.len() > 48 => {
            let head: std::string::String = s.chars().take(24).collect();
            String(format!("{head}…({} bytes)", s.len()))
        }
        Array(a) if a.len() > 24 && a.iter().all(|x| x.is_number()) => {
            let mut h: Vec<serde_json::Value> = a.iter().take(8).cloned().collect();
            h.push(String(format!("…({} numbers)", a.len())));
            Array(h)
        }
        Array(a) => Array(a.iter().map(abbreviate).collect()),
        Object(o) => Object(o.iter().map(|(k, v)| (k.clone(), abbreviate(v))).collect()),
        other => other.clone(),
    }
}

pub fn outcome_fail(sig: impl Into<String>, msg: impl Into<String>) -> Outcome {
    Outcome::fail(sig, msg)
}
