//! C02 — well-formed inbound packets decode to exactly the values the server sent.

use super::common::*;
use crate::api::*;
use crate::driver::*;
use crate::gen;
use crate::refcodec as rc;
use crate::world::*;
use proptest::prelude::*;
use serde::{Deserialize, Serialize};

#[derive(Clone, Debug, Serialize, Deserialize)]
pub enum In {
    /// CONNACK as the answer to connect() (or, with `via_auth`, to authorize())
    Connack { pkt: rc::Connack, via_auth: bool },
    /// AUTH challenge as the answer to connect() / authorize()
    Auth { pkt: rc::Auth, via_auth: bool },
    Suback(rc::AckList),
    Unsuback(rc::AckList),
    Puback(rc::Ack),
    Pubrec(rc::Ack),
    Pubcomp(rc::Ack),
    Publish(rc::Publish),
    Pubrel(rc::Ack),
    Pingresp,
    Disconnect(rc::Disconnect),
}

#[derive(Clone, Debug, Serialize, Deserialize)]
pub struct Case {
    pub input: In,
    pub form: rc::Form,
    /// 0 = deliver the packet in one chunk, else fixed-size chunks
    pub chunk: u16,
    /// surroundings that must not matter: bits 0-6 vary the connection prologue of the run-phase
    /// cases (see `connect_and_run_v`; with bits 4+5 the client's own CONNECT announces Maximum
    /// Packet Size 256 and Receive Maximum 1 - only applied when the packet under test is < 200
    /// bytes); bit 7: eight 40-byte QoS 0 PUBLISH packets without subscription identifier follow
    /// the packet under test in the same transport read
    #[serde(default)]
    pub ambient: u8,
}

pub struct C02;

pub fn input(big: bool) -> BoxedStrategy<In> {
    let connack_ok = gen::connack(big, Just(0u8).boxed(), false);
    let connack_err = gen::connack(
        big,
        prop::sample::select(&rc::CONNACK_REASONS[1..]).boxed(),
        true,
    );
    prop_oneof![
        3 => (connack_ok, any::<bool>()).prop_map(|(pkt, via_auth)| In::Connack { pkt, via_auth }),
        2 => (connack_err, any::<bool>()).prop_map(|(pkt, via_auth)| In::Connack { pkt, via_auth }),
        2 => (gen::server_auth(big), any::<bool>()).prop_map(|(pkt, via_auth)| In::Auth { pkt, via_auth }),
        1 => Just(In::Auth { pkt: rc::Auth::default(), via_auth: true }),
        2 => (1usize..6).prop_flat_map(move |n| gen::ack_list(big, Just(1u16).boxed(), rc::SUBACK_REASONS, n)).prop_map(In::Suback),
        2 => (1usize..6).prop_flat_map(move |n| gen::ack_list(big, Just(1u16).boxed(), rc::UNSUBACK_REASONS, n)).prop_map(In::Unsuback),
        2 => gen::ack(big, Just(1u16).boxed(), rc::PUBACK_REASONS).prop_map(In::Puback),
        2 => gen::ack(big, Just(1u16).boxed(), rc::PUBREC_REASONS).prop_map(In::Pubrec),
        2 => gen::ack(big, Just(1u16).boxed(), rc::PUBCOMP_REASONS).prop_map(In::Pubcomp),
        5 => gen::server_publish(big, (0u8..3).boxed(), Just(vec![]).boxed(), true).prop_map(In::Publish),
        2 => gen::ack(big, gen::pid(), rc::PUBREL_REASONS).prop_map(In::Pubrel),
        1 => Just(In::Pingresp),
        3 => gen::server_disconnect(big, prop::sample::select(rc::SERVER_DISCONNECT_REASONS).boxed()).prop_map(In::Disconnect),
    ]
    .boxed()
}

pub fn packet_of(i: &In) -> (rc::Packet, &'static str) {
    match i {
        In::Connack { pkt, .. } => (rc::Packet::Connack(pkt.clone()), "connack"),
        In::Auth { pkt, .. } => (rc::Packet::Auth(pkt.clone()), "auth"),
        In::Suback(a) => (rc::Packet::Suback(a.clone()), "suback"),
        In::Unsuback(a) => (rc::Packet::Unsuback(a.clone()), "unsuback"),
        In::Puback(a) => (rc::Packet::Puback(a.clone()), "puback"),
        In::Pubrec(a) => (rc::Packet::Pubrec(a.clone()), "pubrec"),
        In::Pubcomp(a) => (rc::Packet::Pubcomp(a.clone()), "pubcomp"),
        In::Publish(p) => (rc::Packet::Publish(p.clone()), "publish"),
        In::Pubrel(a) => (rc::Packet::Pubrel(a.clone()), "pubrel"),
        In::Pingresp => (rc::Packet::Pingresp, "pingresp"),
        In::Disconnect(d) => (rc::Packet::Disconnect(d.clone()), "disconnect"),
    }
}

thread_local! {
    /// (prologue variant, companions) of the case being run
    static AMBIENT: std::cell::Cell<(u8, bool)> = const { std::cell::Cell::new((0, false)) };
}

fn run_prologue(w: &mut World, spec: ConnectSpec, plan: &WritePlan) -> Result<(), String> {
    connect_and_run_v(w, spec, &default_connack(), plan, AMBIENT.with(|a| a.get().0))
}

fn feed_chunked(w: &mut World, mut bytes: Vec<u8>, chunk: u16) {
    w.tick();
    if AMBIENT.with(|a| a.get().1) && w.ctx_running() {
        // run() is serving: more packets arrive in the same read (they address no subscription)
        // (two of them QoS 2, unless the client's own CONNECT asked for Receive Maximum 1)
        let tiny = AMBIENT.with(|a| a.get().0) & 48 == 48;
        for k in 0..8u8 {
            let qos = if !tiny && (k == 2 || k == 5) { 2 } else { 0 };
            bytes.extend(rc::encode(
                &rc::Packet::Publish(rc::Publish { qos, pid: (qos > 0).then_some(0x6000 + k as u16), topic: format!("companion/{k}"), payload: vec![k; 24], ..Default::default() }),
                &rc::Form::canonical(),
            ));
        }
    }
    if chunk == 0xfff5 {
        // 64 KiB reads; the read that completes the packet also carries the first byte of a QoS 0
        // PUBLISH that addresses no subscription; a quiet moment; then the rest of that PUBLISH
        let next = rc::encode(&rc::Packet::Publish(rc::Publish { qos: 0, topic: "after/large".into(), payload: vec![9; 5], ..Default::default() }), &rc::Form::canonical());
        let with_next = w.ctx_running();
        let n = bytes.len();
        let mut at = 0;
        while n - at > 65_536 {
            w.reader.feed(bytes[at..at + 65_536].to_vec());
            at += 65_536;
        }
        let mut last = bytes[at..].to_vec();
        if with_next {
            last.push(next[0]);
        }
        w.reader.feed(last);
        settle(w, &WritePlan::default(), false);
        if with_next {
            w.reader.feed(next[1..].to_vec());
        }
    } else if chunk >= 0xfff0 {
        // the first read(s) end inside the fixed header / remaining-length field, the rest follows
        // in one piece: [3, rest], [4, rest], [1, 2, rest], [2, rest]
        let cuts: &[usize] = match chunk {
            0xfff3 => &[3],
            0xfff4 => &[4],
            0xfff1 => &[1, 3],
            _ => &[2],
        };
        let mut at = 0;
        for c in cuts {
            let c = (*c).min(bytes.len());
            if c > at {
                w.reader.feed(bytes[at..c].to_vec());
                at = c;
            }
        }
        if at < bytes.len() {
            w.reader.feed(bytes[at..].to_vec());
        }
    } else if chunk == 0 {
        w.reader.feed(bytes);
    } else {
        for c in bytes.chunks(chunk as usize) {
            w.reader.feed(c.to_vec());
        }
    }
}

fn fail(sig: &str, msg: String) -> Result<(), Failure> {
    Err(Failure {
        sig: sig.to_string(),
        msg,
    })
}

fn prop_count(v: &serde_json::Value) -> usize {
    match v {
        serde_json::Value::Null => 0,
        serde_json::Value::Array(a) => a.iter().map(prop_count).sum(),
        serde_json::Value::Object(o) => o.values().map(prop_count).sum(),
        _ => 1,
    }
}

fn run_case(case: &Case, exp_up: &UserProps, out: &mut Outcome) -> Result<(), Failure> {
    let plan = WritePlan::default();
    let mut w = World::new();
    let form = &case.form;
    let _ = take_accessor_issues();
    {
        let (pkt, _) = packet_of(&case.input);
        let len = rc::encode(&pkt, form).len();
        let mut pv = case.ambient & 0x7f;
        if len >= 200 {
            pv &= !32; // the scripted broker respects the client's own Maximum Packet Size
        }
        AMBIENT.with(|a| a.set((pv, case.ambient & 128 != 0)));
        if case.ambient != 0 {
            out.class("ambient-variation");
        }
        if case.ambient & 128 != 0 {
            out.class("companion-packets-in-the-same-read");
        }
    }
    let r = (|| -> Result<(), Failure> {
        match &case.input {
            In::Connack { pkt, via_auth } => {
                out.class("connack");
                prologue_first_response(&mut w, *via_auth)?;
                feed_chunked(&mut w, rc::encode(&rc::Packet::Connack(pkt.clone()), form), case.chunk);
                settle(&mut w, &plan, false);
                let got = w.conn_results.last().cloned();
                if pkt.reason < 0x80 {
                    let mut cv = connack_expected(pkt);
                    cv.user_props = exp_up.clone();
                    let want = ConnRes::Connack(cv);
                    if got.as_ref() != Some(&want) {
                        return fail(
                            &format!("C02/connack/{}", diff_kind(&got)),
                            format!("connect() returned {got:?}\n   want {want:?}"),
                        );
                    }
                } else {
                    out.class("reason>=0x80");
                    let want = ConnRes::Err(ErrSum::Connect {
                        reason: pkt.reason,
                        reason_string: pkt.reason_string.clone(),
                        server_reference: pkt.server_reference.clone(),
                        user_props: exp_up.clone(),
                    });
                    if got.as_ref() != Some(&want) {
                        return fail(
                            &format!("C02/connack-error/{}", diff_kind(&got)),
                            format!("connect() returned {got:?}\n   want {want:?}"),
                        );
                    }
                }
            }
            In::Auth { pkt, via_auth } => {
                out.class("auth");
                prologue_first_response(&mut w, *via_auth)?;
                feed_chunked(&mut w, rc::encode(&rc::Packet::Auth(pkt.clone()), form), case.chunk);
                settle(&mut w, &plan, false);
                let got = w.conn_results.last().cloned();
                let mut av = auth_expected(pkt);
                av.user_props = exp_up.clone();
                let want = ConnRes::Auth(av);
                if got.as_ref() != Some(&want) {
                    let shape = if pkt.method.is_none() {
                        "short-form"
                    } else if pkt.data.is_none() {
                        "method-without-data"
                    } else {
                        "full"
                    };
                    return fail(
                        &format!("C02/auth/{shape}/{}", diff_kind(&got)),
                        format!("connect()/authorize() returned {got:?}\n   want {want:?}"),
                    );
                }
            }
            In::Suback(a) | In::Unsuback(a) => {
                let is_sub = matches!(case.input, In::Suback(_));
                out.class(if is_sub { "suback" } else { "unsuback" });
                run_prologue(&mut w, ConnectSpec::default(), &plan)
                    .map_err(|e| Failure { sig: "C02/prologue".into(), msg: e })?;
                let mut tr = Tracker::new();
                tr.skip_existing(&mut w);
                let spec = if is_sub {
                    OpSpec::Subscribe(tagged_subscribe(0, a.reasons.len()))
                } else {
                    OpSpec::Unsubscribe(tagged_unsubscribe(0, a.reasons.len()))
                };
                w.tick();
                let op = w.start_op(0, spec).unwrap();
                settle(&mut w, &plan, false);
                tr.update(&mut w);
                let pid = tr.pid(op).ok_or_else(|| Failure {
                    sig: "C02/prologue".into(),
                    msg: format!("request not found on the wire: {:?} {:?}", tr.unattributed, tr.malformed),
                })?;
                let mut a2 = a.clone();
                a2.pid = pid;
                let p = if is_sub {
                    rc::Packet::Suback(a2)
                } else {
                    rc::Packet::Unsuback(a2)
                };
                feed_chunked(&mut w, rc::encode(&p, form), case.chunk);
                settle(&mut w, &plan, false);
                let want = if is_sub {
                    OpRes::SubOk {
                        reasons: a.reasons.clone(),
                        reason_string: a.reason_string.clone(),
                        user_props: exp_up.clone(),
                    }
                } else {
                    OpRes::UnsubOk {
                        reasons: a.reasons.clone(),
                        reason_string: a.reason_string.clone(),
                        user_props: exp_up.clone(),
                    }
                };
                if w.ops[op].res.as_ref() != Some(&want) {
                    return fail(
                        &format!(
                            "C02/{}/{}",
                            if is_sub { "suback" } else { "unsuback" },
                            op_diff_kind(&w.ops[op].res)
                        ),
                        format!("operation returned {:?}\n   want {want:?}; run={:?}", w.ops[op].res, w.run_result),
                    );
                }
            }
            In::Puback(a) | In::Pubrec(a) | In::Pubcomp(a) => {
                let (name, qos) = match case.input {
                    In::Puback(_) => ("puback", 1),
                    In::Pubrec(_) => ("pubrec", 2),
                    _ => ("pubcomp", 2),
                };
                out.class(name);
                if a.reason >= 0x80 {
                    out.class("reason>=0x80");
                }
                run_prologue(&mut w, ConnectSpec::default(), &plan)
                    .map_err(|e| Failure { sig: "C02/prologue".into(), msg: e })?;
                let mut tr = Tracker::new();
                tr.skip_existing(&mut w);
                w.tick();
                let op = w.start_op(0, OpSpec::Publish(tagged_publish(0, qos))).unwrap();
                settle(&mut w, &plan, false);
                tr.update(&mut w);
                let pid = tr.pid(op).ok_or_else(|| Failure {
                    sig: "C02/prologue".into(),
                    msg: "PUBLISH not found on the wire".into(),
                })?;
                let mut a2 = a.clone();
                a2.pid = pid;
                let mut want = OpRes::Ok;
                match case.input {
                    In::Puback(_) => {
                        feed_chunked(&mut w, rc::encode(&rc::Packet::Puback(a2), form), case.chunk);
                        if a.reason >= 0x80 {
                            want = OpRes::Err(ErrSum::Puback {
                                reason: a.reason,
                                reason_string: a.reason_string.clone(),
                                user_props: exp_up.clone(),
                            });
                        }
                    }
                    In::Pubrec(_) => {
                        feed_chunked(&mut w, rc::encode(&rc::Packet::Pubrec(a2), form), case.chunk);
                        settle(&mut w, &plan, false);
                        if a.reason >= 0x80 {
                            want = OpRes::Err(ErrSum::Pubrec {
                                reason: a.reason,
                                reason_string: a.reason_string.clone(),
                                user_props: exp_up.clone(),
                            });
                        } else {
                            feed_packet(
                                &mut w,
                                &rc::Packet::Pubcomp(rc::Ack { pid, ..Default::default() }),
                                &rc::Form::short(),
                            );
                        }
                    }
                    _ => {
                        feed_packet(
                            &mut w,
                            &rc::Packet::Pubrec(rc::Ack { pid, ..Default::default() }),
                            &rc::Form::short(),
                        );
                        settle(&mut w, &plan, false);
                        feed_chunked(&mut w, rc::encode(&rc::Packet::Pubcomp(a2), form), case.chunk);
                        if a.reason >= 0x80 {
                            want = OpRes::Err(ErrSum::Pubcomp {
                                reason: a.reason,
                                reason_string: a.reason_string.clone(),
                                user_props: exp_up.clone(),
                            });
                        }
                    }
                }
                settle(&mut w, &plan, false);
                if w.ops[op].res.as_ref() != Some(&want) {
                    return fail(
                        &format!("C02/{name}/{}", op_diff_kind(&w.ops[op].res)),
                        format!("publish() returned {:?}\n   want {want:?}; run={:?}", w.ops[op].res, w.run_result),
                    );
                }
            }
            In::Publish(p) => {
                out.class(format!("publish-qos{}", p.qos));
                let cs = ConnectSpec {
                    topic_alias_maximum: Some(65535),
                    ..Default::default()
                };
                run_prologue(&mut w, cs, &plan)
                    .map_err(|e| Failure { sig: "C02/prologue".into(), msg: e })?;
                let mut tr = Tracker::new();
                tr.skip_existing(&mut w);
                w.tick();
                let op = w.start_op(0, OpSpec::Subscribe(tagged_subscribe(0, 1))).unwrap();
                settle(&mut w, &plan, false);
                tr.update(&mut w);
                let (pid, sid) = match (tr.pid(op), tr.sub_id(op)) {
                    (Some(p), Some(s)) => (p, s),
                    _ => {
                        return fail("C02/prologue", "SUBSCRIBE not found on the wire".into());
                    }
                };
                feed_packet(
                    &mut w,
                    &rc::Packet::Suback(rc::AckList { pid, reasons: vec![0], ..Default::default() }),
                    &rc::Form::canonical(),
                );
                settle(&mut w, &plan, false);
                let s = w.make_stream(op).ok_or_else(|| Failure {
                    sig: "C02/prologue".into(),
                    msg: format!("subscribe() did not complete: {:?}", w.ops[op].res),
                })?;
                let mut p2 = p.clone();
                p2.subscription_ids = vec![sid];
                feed_chunked(&mut w, rc::encode(&rc::Packet::Publish(p2.clone()), form), case.chunk);
                settle(&mut w, &plan, true);
                w.drain_stream(s);
                let mut want = msg_expected(&p2);
                want.user_props = exp_up.clone();
                if w.streams[s].items.is_empty() && w.run_result.is_none() && w.panics.is_empty() {
                    // accepted but not handed to the stream: whether a message must be delivered
                    // is C07's claim; nothing was exposed, so there is nothing to compare here
                    out.excluded.push("PUBLISH accepted but not delivered to the stream (not judged here)".into());
                    return Ok(());
                }
                if w.streams[s].items.len() != 1 || w.streams[s].items[0] != want {
                    let kind = if w.streams[s].items.is_empty() {
                        "rejected"
                    } else {
                        "field-mismatch"
                    };
                    return fail(
                        &format!("C02/publish/{kind}"),
                        format!(
                            "stream yielded {:?}\n   want [{want:?}]; run={:?}",
                            w.streams[s].items, w.run_result
                        ),
                    );
                }
            }
            In::Pubrel(a) => {
                out.class("pubrel");
                run_prologue(&mut w, ConnectSpec::default(), &plan)
                    .map_err(|e| Failure { sig: "C02/prologue".into(), msg: e })?;
                let mut tr = Tracker::new();
                tr.skip_existing(&mut w);
                feed_chunked(&mut w, rc::encode(&rc::Packet::Pubrel(a.clone()), form), case.chunk);
                settle(&mut w, &plan, false);
                tr.update(&mut w);
                // accepted = the client keeps serving (that a PUBCOMP answers it is C08's claim)
                if w.run_result.is_some() {
                    return fail(
                        "C02/pubrel/not-accepted",
                        format!("run() returned {:?} on a well-formed PUBREL", w.run_result),
                    );
                }
            }
            In::Pingresp => {
                out.class("pingresp");
                run_prologue(&mut w, ConnectSpec::default(), &plan)
                    .map_err(|e| Failure { sig: "C02/prologue".into(), msg: e })?;
                w.tick();
                let op = w.start_op(0, OpSpec::Ping).unwrap();
                settle(&mut w, &plan, false);
                feed_chunked(&mut w, rc::encode(&rc::Packet::Pingresp, form), case.chunk);
                settle(&mut w, &plan, false);
                if w.ops[op].res != Some(OpRes::Ok) {
                    return fail(
                        "C02/pingresp/not-accepted",
                        format!("ping() returned {:?}; run={:?}", w.ops[op].res, w.run_result),
                    );
                }
            }
            In::Disconnect(d) => {
                out.class("disconnect");
                run_prologue(&mut w, ConnectSpec::default(), &plan)
                    .map_err(|e| Failure { sig: "C02/prologue".into(), msg: e })?;
                let bytes = rc::encode(&rc::Packet::Disconnect(d.clone()), form);
                out.class(format!("disconnect-rl{}", bytes[1].min(2)));
                feed_chunked(&mut w, bytes, case.chunk);
                settle(&mut w, &plan, false);
                if d.reason == 0 {
                    // which outcome run() reports for a graceful DISCONNECT is C13's business;
                    // here the packet only has to be accepted
                    match &w.run_result {
                        None | Some(RunRes::Ok) => {}
                        Some(other) => {
                            let shape = if form.short && d.reason_string.is_none() && d.server_reference.is_none() && d.user_props.is_empty() { "rl0" } else { "full" };
                            return fail(
                                &format!("C02/disconnect/{shape}/rejected"),
                                format!("run() returned {other:?} for a well-formed DISCONNECT with reason 0"),
                            );
                        }
                    }
                } else {
                    let want = RunRes::Err(ErrSum::Disconnected {
                        reason: d.reason,
                        session_expiry: 0,
                        reason_string: d.reason_string.clone(),
                        server_reference: d.server_reference.clone(),
                        user_props: exp_up.clone(),
                    });
                    if w.run_result.as_ref() != Some(&want) {
                        return fail(
                            "C02/disconnect/mismatch",
                            format!("run() returned {:?}\n   want {want:?}", w.run_result),
                        );
                    }
                }
            }
        }
        Ok(())
    })();
    if let Some(p) = first_panic(&w) {
        return Err(Failure {
            sig: format!("C02/panic/{}", panic_sig(&p)),
            msg: p,
        });
    }
    r?;
    // everything delivered was well-formed (the packet under test and, where present, the packets
    // around it): run() has no reason to end
    if !matches!(case.input, In::Disconnect(_) | In::Connack { .. } | In::Auth { .. }) {
        settle(&mut w, &plan, false);
        if let Some(RunRes::Err(e)) = &w.run_result {
            return fail(
                &format!("C02/{}/run-ended", packet_of(&case.input).1),
                format!("only well-formed packets were delivered, yet run() returned {e:?}"),
            );
        }
    }
    let issues = take_accessor_issues();
    if let Some(i) = issues.first() {
        return fail("C02/user-properties-accessors", i.clone());
    }
    Ok(())
}

fn sorted_up(p: &rc::Packet) -> rc::Packet {
    let mut p = p.clone();
    match &mut p {
        rc::Packet::Connack(c) => c.user_props.sort(),
        rc::Packet::Auth(c) => c.user_props.sort(),
        rc::Packet::Suback(c) | rc::Packet::Unsuback(c) => c.user_props.sort(),
        rc::Packet::Puback(c) | rc::Packet::Pubrec(c) | rc::Packet::Pubrel(c) | rc::Packet::Pubcomp(c) => c.user_props.sort(),
        rc::Packet::Publish(c) => c.user_props.sort(),
        rc::Packet::Disconnect(c) => c.user_props.sort(),
        _ => {}
    }
    p
}

fn diff_kind(got: &Option<ConnRes>) -> &'static str {
    match got {
        None => "no-result",
        Some(ConnRes::Err(ErrSum::Codec(_))) => "rejected-codec-error",
        Some(ConnRes::Err(_)) => "wrong-error",
        Some(_) => "field-mismatch",
    }
}

fn op_diff_kind(got: &Option<OpRes>) -> &'static str {
    match got {
        None => "no-result",
        Some(OpRes::Err(ErrSum::ContextExited)) => "context-exited",
        Some(OpRes::Err(_)) => "wrong-error",
        Some(_) => "field-mismatch",
    }
}

/// Bring a fresh world to the point where the library awaits the first response.
fn prologue_first_response(w: &mut World, via_auth: bool) -> Result<(), Failure> {
    let plan = WritePlan::default();
    w.tick();
    if via_auth {
        let cs = ConnectSpec {
            auth_method: Some("m".into()),
            auth_data: Some(vec![1]),
            ..Default::default()
        };
        w.start_connect(cs);
        settle(w, &plan, false);
        w.reader.feed(rc::encode(
            &rc::Packet::Auth(rc::Auth {
                reason: 0x18,
                method: Some("m".into()),
                data: Some(vec![2]),
                ..Default::default()
            }),
            &rc::Form::canonical(),
        ));
        settle(w, &plan, false);
        match w.conn_results.last() {
            Some(ConnRes::Auth(_)) => {}
            other => {
                return Err(Failure {
                    sig: "C02/prologue".into(),
                    msg: format!("auth prologue returned {other:?}"),
                })
            }
        }
        w.tick();
        w.start_authorize(AuthSpec {
            reason: Some(0x18),
            method: Some("m".into()),
            data: Some(vec![3]),
            user_props: vec![],
        });
    } else {
        w.start_connect(ConnectSpec::default());
    }
    settle(w, &plan, false);
    Ok(())
}

impl Property for C02 {
    const ID: &'static str = "C02";
    const RULE: &'static str = "server packets of all eleven types (any legal property subset, generated property order, duplicate user-property keys, boundary lengths, every legal reason code, short forms) encoded by the reference encoder and delivered through the client in the phase where a server may send them; read back only through public accessors. Non-trivial = >= 3 property/field values present, or a short form; distinct = distinct serialised case";
    type Case = Case;

    fn strategy(_tier: Tier) -> BoxedStrategy<Case> {
        let s = (
            input(true),
            gen::form(),
            // one transport chunk per packet (how reads are cut in general is C03's quantifier),
            // or a first read that ends inside the length field and the rest in one piece: a
            // well-formed packet is accepted however it arrives
            prop_oneof![6 => Just(0u16), 1 => Just(0xfff3u16), 1 => Just(0xfff4u16), 1 => Just(0xfff1u16), 1 => Just(0xfff2u16)],
        )
            .prop_map(|(input, form, chunk)| Case { input, form, chunk, ambient: 0 })
            .boxed();
        (s, prop_oneof![2 => Just(0u8), 1 => 0u8..128, 1 => (0u8..128).prop_map(|v| v | 128), 1 => (0u8..16).prop_map(|v| v | 48 | 128)])
            .prop_map(|(mut c, a)| {
                c.ambient = a;
                c
            })
            .boxed()
    }

    fn cases(tier: Tier) -> u32 {
        tier.pick(20_000, 400_000)
    }

    fn quick_profiles() -> &'static [&'static str] {
        &["checked", "release"]
    }

    /// every SUBSET of the properties legal for CONNACK (2^17) and PUBLISH (2^7 x QoS x
    /// DUP/RETAIN), every reason code of every acknowledgement type x short/long form
    fn exhaustive(_tier: Tier, worker: usize, workers: usize) -> Box<dyn Iterator<Item = Case>> {
        let bit = |m: u32, i: u32| m & (1 << i) != 0;
        let rev = rc::Form { order: vec![9, 8, 7, 6, 5, 4, 3, 2, 1, 0], short: false };
        let connacks = (0u32..(1 << 17)).map(move |m| Case {
            input: In::Connack {
                pkt: rc::Connack {
                    session_present: m % 3 == 0,
                    reason: 0,
                    session_expiry: bit(m, 0).then_some(0x0102_0304),
                    receive_maximum: bit(m, 1).then_some(0x0506),
                    maximum_qos: bit(m, 2).then_some((m % 2) as u8),
                    retain_available: bit(m, 3).then_some(false),
                    maximum_packet_size: bit(m, 4).then_some(0x0708_090a),
                    assigned_client_id: bit(m, 5).then(|| "aci".to_string()),
                    topic_alias_maximum: bit(m, 6).then_some(0x0b0c),
                    reason_string: bit(m, 7).then(|| "rs".to_string()),
                    user_props: if bit(m, 8) { vec![("k".into(), "1".into()), ("k".into(), "2".into())] } else { vec![] },
                    wildcard_available: bit(m, 9).then_some(false),
                    sub_ids_available: bit(m, 10).then_some(true),
                    shared_available: bit(m, 11).then_some(false),
                    server_keep_alive: bit(m, 12).then_some(0x0d0e),
                    response_information: bit(m, 13).then(|| "ri".to_string()),
                    server_reference: bit(m, 14).then(|| "sr".to_string()),
                    auth_method: bit(m, 15).then(|| "am".to_string()),
                    auth_data: bit(m, 16).then(|| vec![0xad]),
                },
                via_auth: m % 5 == 0,
            },
            form: if m % 2 == 0 { rc::Form::canonical() } else { rev.clone() },
            chunk: 0,
            ambient: 0,
        });
        let rev2 = rc::Form { order: vec![9, 8, 7, 6, 5, 4, 3, 2, 1, 0], short: false };
        let publishes = (0u32..(1 << 7)).flat_map(move |m| {
            let rev2 = rev2.clone();
            (0u8..12).map(move |f| {
                let qos = f % 3;
                Case {
                    input: In::Publish(rc::Publish {
                        dup: f / 3 % 2 == 1 && qos > 0,
                        qos,
                        retain: f / 6 == 1,
                        topic: "t/x".into(),
                        pid: (qos > 0).then_some(0x1234),
                        payload_format: bit(m, 0).then_some(true),
                        message_expiry: bit(m, 1).then_some(0x0102_0304),
                        topic_alias: bit(m, 2).then_some(0x0506),
                        response_topic: bit(m, 3).then(|| "rt".to_string()),
                        correlation_data: bit(m, 4).then(|| vec![0xc0, 0xc1]),
                        user_props: if bit(m, 5) { vec![("a".into(), "b".into())] } else { vec![] },
                        subscription_ids: vec![],
                        content_type: bit(m, 6).then(|| "ct".to_string()),
                        payload: vec![1, 2, 3],
                    }),
                    form: if f % 2 == 0 { rc::Form::canonical() } else { rev2.clone() },
                    chunk: 0,
                    ambient: 0,
                }
            })
        });
        let mut acks = vec![];
        // messages of 70 KiB, 1.2 MiB and 3.1 MiB arriving in 64 KiB reads, the last of which
        // carries the first byte of the next packet
        for (k, n) in [70usize * 1024, 1_258_291, 3_250_586].into_iter().enumerate() {
            acks.push(Case {
                input: In::Publish(rc::Publish { qos: (k % 3) as u8, pid: (k % 3 > 0).then_some(77), topic: "large/message".into(), payload: vec![0x42; n], ..Default::default() }),
                form: rc::Form::canonical(),
                chunk: 0xfff5,
                ambient: 0,
            });
        }
        // remaining lengths that are exact multiples of 128 (length bytes 80 01, 80 02, 80 80 01,
        // ..), the first reads ending inside the length field
        for target in [128usize, 256, 384, 16_384, 16_512, 32_768] {
            for chunk in [0xfff1u16, 0xfff2, 0xfff3, 0xfff4] {
                // PUBLISH: the check adds the subscription identifier, so a small range of sizes
                // makes sure one of them hits the target exactly
                for n in target - 30..=target - 8 {
                    acks.push(Case {
                        input: In::Publish(rc::Publish { qos: 0, topic: "exact/len".into(), payload: vec![0x42; n], ..Default::default() }),
                        form: rc::Form::canonical(),
                        chunk,
                        ambient: 0,
                    });
                    acks.push(Case {
                        input: In::Publish(rc::Publish { qos: 1, pid: Some(9), topic: "exact".into(), content_type: Some("c".repeat(n)), payload: vec![1], ..Default::default() }),
                        form: rc::Form::canonical(),
                        chunk,
                        ambient: 0,
                    });
                }
                // CONNACK: sized exactly
                let mk = |n: usize| rc::Connack { reason: 0, reason_string: Some("r".repeat(n)), ..Default::default() };
                let rl = |n: usize| {
                    let b = rc::encode(&rc::Packet::Connack(mk(n)), &rc::Form::canonical());
                    b.len() - 1 - if b.len() - 2 < 128 { 1 } else if b.len() - 3 < 16_384 { 2 } else { 3 }
                };
                let mut n = 0usize;
                for _ in 0..4 {
                    if rl(n) != target {
                        n = (n + target).saturating_sub(rl(n));
                    }
                }
                if rl(n) == target {
                    acks.push(Case { input: In::Connack { pkt: mk(n), via_auth: false }, form: rc::Form::canonical(), chunk, ambient: 0 });
                }
            }
        }
        for short in [false, true] {
            for deco in 0u8..4 {
                let rs = (deco & 1 != 0).then(|| "why".to_string());
                let up: UserProps = if deco & 2 != 0 { vec![("u".into(), "p".into())] } else { vec![] };
                let form = rc::Form { order: vec![], short };
                for r in rc::PUBACK_REASONS {
                    let a = rc::Ack { pid: 1, reason: *r, reason_string: rs.clone(), user_props: up.clone() };
                    acks.push(Case { input: In::Puback(a.clone()), form: form.clone(), chunk: 0, ambient: 0 });
                    acks.push(Case { input: In::Pubrec(a), form: form.clone(), chunk: 0, ambient: 0 });
                }
                for r in rc::PUBCOMP_REASONS {
                    let a = rc::Ack { pid: 1, reason: *r, reason_string: rs.clone(), user_props: up.clone() };
                    acks.push(Case { input: In::Pubcomp(a.clone()), form: form.clone(), chunk: 0, ambient: 0 });
                    acks.push(Case { input: In::Pubrel(rc::Ack { pid: 0x0102, ..a }), form: form.clone(), chunk: 0, ambient: 0 });
                }
                for r in rc::SUBACK_REASONS {
                    acks.push(Case { input: In::Suback(rc::AckList { pid: 1, reason_string: rs.clone(), user_props: up.clone(), reasons: vec![*r, 0] }), form: form.clone(), chunk: 0, ambient: 0 });
                }
                for r in rc::UNSUBACK_REASONS {
                    acks.push(Case { input: In::Unsuback(rc::AckList { pid: 1, reason_string: rs.clone(), user_props: up.clone(), reasons: vec![*r] }), form: form.clone(), chunk: 0, ambient: 0 });
                }
                for r in rc::SERVER_DISCONNECT_REASONS {
                    acks.push(Case {
                        input: In::Disconnect(rc::Disconnect { reason: *r, session_expiry: None, reason_string: rs.clone(), server_reference: (deco == 3).then(|| "srv".to_string()), user_props: up.clone() }),
                        form: form.clone(),
                        chunk: 0,
                        ambient: 0,
                    });
                }
                for r in rc::CONNACK_REASONS {
                    acks.push(Case {
                        input: In::Connack { pkt: rc::Connack { reason: *r, reason_string: rs.clone(), user_props: up.clone(), server_reference: (deco == 3).then(|| "srv".to_string()), ..Default::default() }, via_auth: short },
                        form: form.clone(),
                        chunk: 0,
                        ambient: 0,
                    });
                }
                for r in rc::SERVER_AUTH_REASONS {
                    acks.push(Case {
                        input: In::Auth { pkt: rc::Auth { reason: *r, method: Some("m".into()), data: (deco & 1 != 0).then(|| vec![9]), reason_string: rs.clone(), user_props: up.clone() }, via_auth: short },
                        form: form.clone(),
                        chunk: 0,
                        ambient: 0,
                    });
                }
            }
        }
        Box::new(
            connacks
                .chain(publishes)
                .chain(acks)
                .enumerate()
                .filter(move |(i, _)| i % workers == worker)
                .map(|(_, c)| c),
        )
    }

    fn assumptions() -> Vec<String> {
        vec![
            "the reference encoder in refcodec.rs emits only well-formed MQTT 5 (self-tested by strict re-decoding)".into(),
            "excluded by construction: successful CONNACK with Subscription Identifiers Available = 0 (documented assertion); Session Expiry Interval in a server DISCONNECT; subscription identifiers above those the library assigns".into(),
            "AUTH is delivered as the first response to connect()/authorize(); PUBLISH carries the subscription identifier read off the wire".into(),
        ]
    }

    fn run(case: &Case) -> Outcome {
        let mut out = Outcome::ok();
        // harness self-check: what we feed must be strictly well-formed
        let pkt = match &case.input {
            In::Connack { pkt, .. } => rc::Packet::Connack(pkt.clone()),
            In::Auth { pkt, .. } => rc::Packet::Auth(pkt.clone()),
            In::Suback(a) => rc::Packet::Suback(a.clone()),
            In::Unsuback(a) => rc::Packet::Unsuback(a.clone()),
            In::Puback(a) => rc::Packet::Puback(a.clone()),
            In::Pubrec(a) => rc::Packet::Pubrec(a.clone()),
            In::Pubcomp(a) => rc::Packet::Pubcomp(a.clone()),
            In::Publish(p) => rc::Packet::Publish(p.clone()),
            In::Pubrel(a) => rc::Packet::Pubrel(a.clone()),
            In::Pingresp => rc::Packet::Pingresp,
            In::Disconnect(d) => rc::Packet::Disconnect(d.clone()),
        };
        let enc = rc::encode(&pkt, &case.form);
        // what is actually on the wire (the generated property order permutes the user
        // properties, whose order is significant): expectations are taken from the strict
        // re-decoding, which must equal the spec up to that permutation
        let sent = match rc::decode_one(&enc, rc::Dir::FromServer) {
            Ok(back) if sorted_up(&back) == sorted_up(&pkt) => back,
            other => {
                eprintln!("harness self-check failed: {pkt:?} -> {other:?}");
                std::process::exit(2);
            }
        };
        let exp_up: UserProps = match &sent {
            rc::Packet::Connack(c) => c.user_props.clone(),
            rc::Packet::Auth(c) => c.user_props.clone(),
            rc::Packet::Suback(c) | rc::Packet::Unsuback(c) => c.user_props.clone(),
            rc::Packet::Puback(c) | rc::Packet::Pubrec(c) | rc::Packet::Pubrel(c) | rc::Packet::Pubcomp(c) => c.user_props.clone(),
            rc::Packet::Publish(c) => c.user_props.clone(),
            rc::Packet::Disconnect(c) => c.user_props.clone(),
            _ => vec![],
        };
        let nprops = prop_count(&serde_json::to_value(&case.input).unwrap());
        let short = case.form.short;
        out.nontrivial = nprops >= 3 || short || case.chunk > 0;
        if short {
            out.class("short-form-requested");
        }
        if case.chunk > 0 {
            out.class("chunked");
        }
        out.class(format!("len-{}", match enc.len() { 0..=129 => "<=129", 130..=16385 => "<=16385", _ => ">16385" }));
        if let Err(f) = run_case(case, &exp_up, &mut out) {
            out.fail = Some(f);
        }
        out
    }
}
