//! C01 — every packet written is well-formed MQTT 5 and carries the caller's options.

use super::common::*;
use crate::api::*;
use crate::driver::*;
use crate::gen;
use crate::refcodec as rc;
use crate::world::*;
use proptest::collection::vec;
use proptest::prelude::*;
use serde::{Deserialize, Serialize};

#[derive(Clone, Debug, Serialize, Deserialize)]
pub enum Req {
    Connect(ConnectSpec),
    /// connect (extended auth) + server AUTH challenge, then authorize(spec)
    Authorize(AuthSpec),
    /// ops submitted on a running context: (handle 0/1, spec); `batch` = all futures are
    /// first polled before the context runs
    Ops { ops: Vec<(u8, OpSpec)>, batch: bool },
    /// a long history of subscribe() calls on one client (each acknowledged at once): the
    /// subscription identifier the library assigns grows through the 127/128 and 16383/16384
    /// widths of its variable-byte encoding
    ManySubscribes { n: u32 },
}

#[derive(Clone, Debug, Serialize, Deserialize)]
pub struct Case {
    pub req: Req,
    pub write: WritePlan,
}

pub struct C01;

fn write_plan() -> BoxedStrategy<WritePlan> {
    prop_oneof![
        3 => Just(WritePlan::default()),
        2 => prop::sample::select(vec![1u16, 2, 3, 7, 64]).prop_map(|k| WritePlan { per_call: k, stall: None }),
        2 => (prop::sample::select(vec![0u16, 1, 3, 7]), prop::sample::select(vec![1u16, 2, 5, 64, 1000]))
            .prop_map(|(k, g)| WritePlan { per_call: k, stall: Some(g) }),
    ]
    .boxed()
}

fn op_spec(big: bool) -> BoxedStrategy<OpSpec> {
    prop_oneof![
        4 => gen::publish_spec(big, gen::any_qos_opt(), 9).prop_map(OpSpec::Publish),
        3 => gen::subscribe_spec(big, 0).prop_map(OpSpec::Subscribe),
        2 => gen::unsubscribe_spec(big, 0).prop_map(OpSpec::Unsubscribe),
        1 => Just(OpSpec::Ping),
    ]
    .boxed()
}

fn ops_req(big: bool) -> BoxedStrategy<Req> {
    (
        vec((0u8..2, op_spec(big)), 1..6),
        proptest::option::of(gen::disconnect_spec(big)),
        any::<bool>(),
    )
        .prop_map(|(mut ops, disc, batch)| {
            if let Some(d) = disc {
                // usually the last request; in a batch (all futures polled before the context
                // runs) sometimes not: what was submitted behind the DISCONNECT is written, in
                // order, by the next connection of the same Context
                let n = ops.len();
                let at = if batch && n >= 2 && d.reason_string.as_ref().map(|s| s.len()).unwrap_or(0) % 3 == 1 { n - 1 } else { n };
                ops.insert(at, (0, OpSpec::Disconnect(d)));
            }
            Req::Ops { ops, batch }
        })
        .boxed()
}

fn set_fields(v: &serde_json::Value) -> usize {
    // number of non-null / non-empty leaves: proxy for "optional fields set"
    match v {
        serde_json::Value::Null => 0,
        serde_json::Value::Array(a) => a.iter().map(set_fields).sum(),
        serde_json::Value::Object(o) => o.values().map(set_fields).sum(),
        _ => 1,
    }
}

fn rl_width(pkt_len: usize) -> usize {
    // total = 1 + w + rl
    for w in 1..=4 {
        let rl = pkt_len.saturating_sub(1 + w);
        if rc::varint_len(rl as u32) == w {
            return w;
        }
    }
    0
}

/// Fill in the library-assigned parts and compare.
fn check_packet(
    out: &mut Outcome,
    got: &rc::Packet,
    want: &rc::Packet,
    seen_pids: &mut Vec<u16>,
    seen_subids: &mut Vec<u32>,
) -> Result<(), Failure> {
    let mut w = want.clone();
    match (&mut w, got) {
        (rc::Packet::Publish(wp), rc::Packet::Publish(gp)) => {
            if wp.qos > 0 {
                match gp.pid {
                    Some(p) if p != 0 => {
                        wp.pid = Some(p);
                        seen_pids.push(p);
                    }
                    _ => {
                        return Err(Failure {
                            sig: "C01/publish/qos>0-without-packet-id".into(),
                            msg: format!("{got:?}"),
                        })
                    }
                }
            }
        }
        (rc::Packet::Subscribe(ws), rc::Packet::Subscribe(gs)) => {
            ws.pid = gs.pid;
            seen_pids.push(gs.pid);
            match gs.sub_id {
                Some(id) => {
                    ws.sub_id = Some(id);
                    if seen_subids.contains(&id) {
                        return Err(Failure {
                            sig: "C01/subscribe/subscription-id-reused".into(),
                            msg: format!("{got:?}"),
                        });
                    }
                    seen_subids.push(id);
                }
                None => {
                    return Err(Failure {
                        sig: "C01/subscribe/no-subscription-id".into(),
                        msg: format!("{got:?}"),
                    })
                }
            }
        }
        (rc::Packet::Unsubscribe(wu), rc::Packet::Unsubscribe(gu)) => {
            wu.pid = gu.pid;
            seen_pids.push(gu.pid);
        }
        _ => {}
    }
    if &w != got {
        let name = want.name().to_lowercase();
        let field = first_diff(&w, got);
        out.class(format!("mismatch:{name}"));
        return Err(Failure {
            sig: format!("C01/{name}/field-mismatch/{field}"),
            msg: format!("decoded {got:?}\n   but the caller supplied {w:?}"),
        });
    }
    Ok(())
}

/// name of the first top-level field that differs (via JSON)
fn first_diff(a: &rc::Packet, b: &rc::Packet) -> String {
    let ja = serde_json::to_value(a).unwrap();
    let jb = serde_json::to_value(b).unwrap();
    fn walk(a: &serde_json::Value, b: &serde_json::Value, path: &str) -> Option<String> {
        match (a, b) {
            (serde_json::Value::Object(x), serde_json::Value::Object(y)) => {
                for (k, v) in x {
                    match y.get(k) {
                        Some(w) => {
                            if let Some(p) = walk(v, w, &format!("{path}.{k}")) {
                                return Some(p);
                            }
                        }
                        None => return Some(format!("{path}.{k}")),
                    }
                }
                None
            }
            _ => {
                if a != b {
                    // do not descend into arrays: the field name is enough
                    Some(path.to_string())
                } else {
                    None
                }
            }
        }
    }
    walk(&ja, &jb, "").unwrap_or_else(|| "?".into())
}

fn malformed_sig(first: u8, e: &rc::Malformed) -> String {
    let ty = rc::TYPE_NAMES[(first >> 4) as usize].to_lowercase();
    let mut m: String = e
        .0
        .chars()
        .map(|c| if c.is_ascii_digit() { '#' } else { c })
        .collect();
    m.truncate(48);
    format!("C01/{ty}/malformed/{m}")
}

/// Runs the script under `plan`; returns (wire bytes relevant to the request(s), refusals ok?)
struct RunResult {
    wire: Vec<u8>,
    /// per request: Some(result is error?) in submission order (ops only)
    op_results: Vec<Option<OpRes>>,
    conn: Option<ConnRes>,
    panic: Option<String>,
    stuck: bool,
    /// what the client wrote in answer to ONE inbound QoS 1 PUBLISH (identifier 0x4242) delivered
    /// after the requests (run-phase cases whose DISCONNECT was not part of the requests)
    probe_wire: Option<Vec<u8>>,
}

fn execute(req: &Req, plan: &WritePlan) -> Result<RunResult, String> {
    let mut w = World::new();
    // 64 KiB strings written one byte per wake-up need a few hundred thousand polls
    w.poll_budget = 6_000_000;
    match req {
        Req::ManySubscribes { .. } => Err("handled by many_subscribes".into()),
        Req::Connect(spec) => {
            plan.install(&w);
            w.tick();
            w.start_connect(spec.clone());
            settle(&mut w, plan, false);
            let stuck = w.writer.blocked() || w.budget_exhausted;
            Ok(RunResult {
                wire: w.writer.data(),
                op_results: vec![],
                conn: w.conn_results.last().cloned(),
                panic: first_panic(&w),
                stuck,
                probe_wire: None,
            })
        }
        Req::Authorize(spec) => {
            let cs = ConnectSpec {
                auth_method: Some("m".into()),
                auth_data: Some(vec![1]),
                ..Default::default()
            };
            w.tick();
            w.start_connect(cs);
            settle(&mut w, &WritePlan::default(), false);
            w.reader.feed(rc::encode(
                &rc::Packet::Auth(rc::Auth {
                    reason: 0x18,
                    method: Some("m".into()),
                    data: Some(vec![2]),
                    ..Default::default()
                }),
                &rc::Form::canonical(),
            ));
            settle(&mut w, &WritePlan::default(), false);
            match w.conn_results.last() {
                Some(ConnRes::Auth(_)) => {}
                other => return Err(format!("authorize prologue: {other:?} {:?}", w.panics)),
            }
            let off = w.writer.len();
            plan.install(&w);
            w.tick();
            w.start_authorize(spec.clone());
            settle(&mut w, plan, false);
            let stuck = w.writer.blocked() || w.budget_exhausted;
            let conn = if w.conn_results.len() > 1 {
                w.conn_results.last().cloned()
            } else {
                None
            };
            Ok(RunResult {
                wire: w.writer.data()[off..].to_vec(),
                op_results: vec![],
                conn,
                panic: first_panic(&w),
                stuck,
                probe_wire: None,
            })
        }
        Req::Ops { ops, batch } => {
            // what the server announced about itself (Session Present, capabilities it lacks such
            // as Retain Available 0 / Maximum QoS, property order, an AUTH exchange, an earlier
            // connection on the same Context) never changes what must be written for a request
            let h = crate::driver::case_hash(&(ops, batch));
            let variant = if h % 3 == 0 { 0 } else { ((h >> 8) & 0x7f) as u8 };
            connect_and_run_v(&mut w, ConnectSpec::default(), &default_connack(), &WritePlan::default(), variant)?;
            let off = w.writer.len();
            plan.install(&w);
            w.clone_handle(0);
            let mut idx = vec![];
            for (h, spec) in ops {
                w.tick();
                let i = w.start_op(*h as usize, spec.clone()).ok_or("harness: no handle")?;
                idx.push(i);
                if *batch {
                    w.poll_op(i);
                } else {
                    settle(&mut w, plan, false);
                }
            }
            settle(&mut w, plan, false);
            let stuck = w.writer.blocked() || w.budget_exhausted;
            let mut wire = w.writer.data()[off..].to_vec();
            // requests queued behind a DISCONNECT that has been written: the Context is connected
            // again and serves them then
            let dpos = ops.iter().position(|(_, s)| matches!(s, OpSpec::Disconnect(_)));
            if let Some(dp) = dpos {
                if dp + 1 < ops.len() && !stuck && w.run_result == Some(RunRes::Ok) && first_panic(&w).is_none() && w.set_up_again() {
                    connect_and_run(&mut w, ConnectSpec::default(), &default_connack(), &WritePlan::default())?;
                    plan.install(&w);
                    settle(&mut w, plan, false);
                    // everything on the new wire behind its CONNECT
                    let all = w.writer.data().to_vec();
                    let skip = rc::split_frame(&all).map(|x| x.2).unwrap_or(0);
                    wire.extend_from_slice(&all[skip..]);
                }
            }
            // everything the client writes is a packet of its own accord or an answer: one inbound
            // QoS 1 PUBLISH now draws exactly one PUBACK and nothing else
            let mut probe_wire = None;
            if !stuck && w.run_result.is_none() && !ops.iter().any(|(_, s)| matches!(s, OpSpec::Disconnect(_))) && first_panic(&w).is_none() {
                let at = w.writer.len();
                w.tick();
                w.reader.feed(rc::encode(&rc::Packet::Publish(rc::Publish { qos: 1, pid: Some(0x4242), topic: "c01/probe".into(), payload: vec![1], ..Default::default() }), &rc::Form::canonical()));
                settle(&mut w, plan, false);
                if !w.writer.blocked() && !w.budget_exhausted {
                    probe_wire = Some(w.writer.data()[at..].to_vec());
                }
            }
            Ok(RunResult {
                wire,
                op_results: idx.iter().map(|i| w.ops[*i].res.clone()).collect(),
                conn: None,
                panic: first_panic(&w),
                stuck,
                probe_wire,
            })
        }
    }
}

/// `n` subscribes, each strictly decoded as it is written and acknowledged before the next.
fn many_subscribes(n: u32, plan: &WritePlan) -> Outcome {
    let mut out = Outcome::ok();
    out.class("many-subscribes");
    out.nontrivial = n > 128;
    let mut w = World::new();
    w.poll_budget = 50_000_000;
    if let Err(e) = connect_and_run(&mut w, ConnectSpec::default(), &default_connack(), &WritePlan::default()) {
        return Outcome::fail("C01/prologue", e);
    }
    plan.install(&w);
    w.clone_handle(0);
    w.sync_wire();
    let mut seen = w.pkts.len();
    let mut ids = std::collections::BTreeSet::new();
    for k in 0..n {
        w.tick();
        let spec = SubscribeSpec { filters: vec![(format!("many/{k}"), SubOptsSpec::default())], user_props: vec![] };
        let want = spec.expected();
        let op = match w.start_op((k % 2) as usize, OpSpec::Subscribe(spec)) {
            Some(i) => i,
            None => return Outcome::fail("C01/prologue", "no handle"),
        };
        settle(&mut w, plan, false);
        if let Some(p) = first_panic(&w) {
            return Outcome::fail(format!("C01/panic/{}", panic_sig(&p)), format!("subscribe #{}: {p}", k + 1));
        }
        w.sync_wire();
        if w.pkts.len() != seen + 1 {
            return Outcome::fail(
                if w.pkts.len() > seen + 1 { "C01/wire/extra-packets" } else { "C01/wire/missing-packets" },
                format!("subscribe #{} wrote {} packets (result {:?})", k + 1, w.pkts.len() - seen, w.ops[op].res),
            );
        }
        let pkt = &w.pkts[seen];
        seen = w.pkts.len();
        let got = match &pkt.decoded {
            Ok(rc::Packet::Subscribe(s)) => s.clone(),
            Ok(other) => return Outcome::fail("C01/wire/extra-packets", format!("subscribe #{} wrote {other:?}", k + 1)),
            Err(e) => {
                let m = e.0.split(':').next().unwrap_or("malformed").trim().replace(' ', "-");
                return Outcome::fail(format!("C01/subscribe/malformed/{}", if e.0.contains("minimal") { "non-minimal".into() } else { m }), format!("subscribe #{}: {}", k + 1, e.0));
            }
        };
        match got.sub_id {
            Some(id) if id != 0 && ids.insert(id) => {}
            Some(id) => return Outcome::fail("C01/subscribe/subscription-id-reused", format!("subscribe #{} carries subscription identifier {id}, used before (or zero)", k + 1)),
            None => return Outcome::fail("C01/subscribe/no-subscription-id", format!("subscribe #{}", k + 1)),
        }
        if let Some(mut want) = want {
            want.pid = got.pid;
            want.sub_id = got.sub_id;
            if want != got {
                return Outcome::fail("C01/subscribe/field-mismatch/.Subscribe", format!("subscribe #{}: wire has {got:?}, requested {want:?}", k + 1));
            }
        }
        w.reader.feed(rc::encode(&rc::Packet::Suback(rc::AckList { pid: got.pid, reasons: vec![0], ..Default::default() }), &rc::Form::canonical()));
        settle(&mut w, plan, false);
        // keep memory flat: the response (and its stream) of an acknowledged subscribe is dropped
        w.ops[op].sub_rsp = None;
    }
    out
}

impl Property for C01 {
    const ID: &'static str = "C01";
    const RULE: &'static str = "typed request specs (one Option per builder method, boundary-biased lengths, all enum values) applied through the public builders, sent via connect/authorize or a running context under a generated write schedule; non-trivial = at least 2 optional fields set, or a refusal case, or a fragmented/pending write schedule; distinct = distinct serialised case";
    type Case = Case;

    fn strategy(tier: Tier) -> BoxedStrategy<Case> {
        let big = true;
        let _ = tier;
        (
            prop_oneof![
                3 => gen::connect_spec(big).prop_map(Req::Connect),
                2 => gen::auth_spec(big).prop_map(Req::Authorize),
                6 => ops_req(big),
            ],
            write_plan(),
        )
            .prop_map(|(req, write)| Case { req, write })
            .boxed()
    }

    fn cases(tier: Tier) -> u32 {
        tier.pick(15_000, 300_000)
    }

    fn quick_profiles() -> &'static [&'static str] {
        &["checked", "release"]
    }

    fn exhaustive(tier: Tier, worker: usize, workers: usize) -> Box<dyn Iterator<Item = Case>> {
        let mut g = grid(tier);
        g.push(Case { req: Req::ManySubscribes { n: 200 }, write: WritePlan::default() });
        g.push(Case { req: Req::ManySubscribes { n: tier.pick(16_500, 33_000) }, write: WritePlan::default() });
        g.push(Case { req: Req::ManySubscribes { n: 16_390 }, write: WritePlan { per_call: 3, stall: None } });
        Box::new(
            g
                .into_iter()
                .enumerate()
                .filter(move |(i, _)| i % workers == worker)
                .map(|(_, c)| c),
        )
    }

    fn assumptions() -> Vec<String> {
        vec![
            "the independent decoder in refcodec.rs implements MQTT 5.0 correctly (self-tested against literal vectors)".into(),
            "domain: strings/binaries <= 65535 bytes, no U+0000, a will is absent or has topic and payload, will QoS/retain/properties only with a will".into(),
            "the library's default subscription maximum QoS (2) counts as a protocol default".into(),
        ]
    }

    fn run(case: &Case) -> Outcome {
        let mut out = Outcome::ok();
        if let Req::ManySubscribes { n } = &case.req {
            return many_subscribes(*n, &case.write);
        }
        let r = match execute(&case.req, &case.write) {
            Ok(r) => r,
            Err(e) => return Outcome::fail("C01/prologue", e),
        };
        if let Some(p) = &r.panic {
            return Outcome::fail(format!("C01/panic/{}", panic_sig(p)), p.clone());
        }
        if r.stuck {
            return Outcome::fail("C01/write-stuck", "writer still blocked / poll budget exhausted");
        }
        let frag = case.write.fragmented();
        if frag {
            out.class("fragmented-write");
        }
        let nset = set_fields(&serde_json::to_value(&case.req).unwrap());
        let mut refused = 0usize;

        // expected packet list
        let mut want: Vec<rc::Packet> = vec![];
        match &case.req {
            Req::ManySubscribes { .. } => {}
            Req::Connect(spec) => {
                out.class("connect");
                match spec.expected() {
                    Some(c) => want.push(rc::Packet::Connect(c)),
                    None => {
                        refused += 1;
                        match &r.conn {
                            Some(ConnRes::Err(_)) => {}
                            other => {
                                return Outcome::fail(
                                    "C01/connect/invalid-request-not-refused",
                                    format!("connect() with data but no method returned {other:?}"),
                                )
                            }
                        }
                    }
                }
            }
            Req::Authorize(spec) => {
                out.class("auth");
                match spec.expected() {
                    Some(a) => want.push(rc::Packet::Auth(a)),
                    None => {
                        refused += 1;
                        match &r.conn {
                            Some(ConnRes::Err(_)) => {}
                            other => {
                                return Outcome::fail(
                                    "C01/auth/invalid-request-not-refused",
                                    format!("authorize() lacking method or data returned {other:?}"),
                                )
                            }
                        }
                    }
                }
            }
            Req::Ops { ops, .. } => {
                for (k, (_, spec)) in ops.iter().enumerate() {
                    out.class(spec.kind());
                    let exp = match spec {
                        OpSpec::Publish(p) => p.expected().map(rc::Packet::Publish),
                        OpSpec::Subscribe(s) => s.expected().map(rc::Packet::Subscribe),
                        OpSpec::Unsubscribe(s) => s.expected().map(rc::Packet::Unsubscribe),
                        OpSpec::Ping => Some(rc::Packet::Pingreq),
                        OpSpec::Disconnect(d) => Some(rc::Packet::Disconnect(d.expected())),
                    };
                    match exp {
                        Some(p) => want.push(p),
                        None => {
                            refused += 1;
                            match &r.op_results[k] {
                                Some(OpRes::Err(_)) => {}
                                other => {
                                    return Outcome::fail(
                                        format!("C01/{}/invalid-request-not-refused", spec.kind()),
                                        format!("request missing a mandatory part returned {other:?}"),
                                    )
                                }
                            }
                        }
                    }
                }
            }
        }
        if refused > 0 {
            out.class("refused");
        }
        out.nontrivial = nset >= 2 || refused > 0 || frag;

        if let Some(pw) = &r.probe_wire {
            let want_ack = rc::encode(&rc::Packet::Puback(rc::Ack { pid: 0x4242, ..Default::default() }), &rc::Form::short());
            let ok = match rc::decode_all(pw, rc::Dir::FromClient) {
                Ok(v) => v.len() == 1 && matches!(&v[0], rc::Packet::Puback(a) if a.pid == 0x4242),
                Err(_) => false,
            };
            out.class("answer-probe");
            if !ok {
                return Outcome::fail(
                    if pw.len() > want_ack.len() { "C01/wire/extra-packets" } else { "C01/wire/missing-packets" },
                    format!("one inbound QoS 1 PUBLISH (identifier 0x4242) after the requests: the client wrote {} (a single PUBACK for it was due)", hex(pw)),
                );
            }
        }
        // (1)+(4): the wire is a concatenation of whole, strictly well-formed packets
        let (frames, rest) = rc::frames(&r.wire);
        if rest != 0 {
            return Outcome::fail(
                "C01/wire/trailing-partial-packet",
                format!("{} trailing bytes do not form a packet: {}", rest, hex(&r.wire)),
            );
        }
        let mut got = vec![];
        for f in &frames {
            out.class(format!("rl-width-{}", rl_width(f.len())));
            match rc::decode_one(f, rc::Dir::FromClient) {
                Ok(p) => got.push(p),
                Err(e) => {
                    return Outcome {
                        fail: Some(Failure {
                            sig: malformed_sig(f[0], &e),
                            msg: format!("{}: {}", e.0, hex(f)),
                        }),
                        ..out
                    }
                }
            }
        }
        if got.len() != want.len() {
            let names: Vec<&str> = got.iter().map(|p| p.name()).collect();
            let wn: Vec<&str> = want.iter().map(|p| p.name()).collect();
            return Outcome {
                fail: Some(Failure {
                    sig: if got.len() > want.len() {
                        "C01/wire/extra-packets".into()
                    } else {
                        "C01/wire/missing-packets".into()
                    },
                    msg: format!("wire has {names:?}, requests were {wn:?}"),
                }),
                ..out
            };
        }
        let mut pids = vec![];
        let mut subids = vec![];
        for (g, w) in got.iter().zip(want.iter()) {
            if g.type_nibble() != w.type_nibble() {
                return Outcome {
                    fail: Some(Failure {
                        sig: "C01/wire/order".into(),
                        msg: format!("expected {} at this position, found {}", w.name(), g.name()),
                    }),
                    ..out
                };
            }
            if let Err(f) = check_packet(&mut out, g, w, &mut pids, &mut subids) {
                return Outcome { fail: Some(f), ..out };
            }
        }
        // valid requests written in full must not be reported as refused (write side)
        if let Req::Ops { ops, .. } = &case.req {
            for (k, (_, spec)) in ops.iter().enumerate() {
                if let (OpSpec::Ping, Some(OpRes::Err(e))) = (spec, &r.op_results[k]) {
                    return Outcome {
                        fail: Some(Failure {
                            sig: "C01/ping/unexpected-error".into(),
                            msg: format!("{e:?}"),
                        }),
                        ..out
                    };
                }
            }
        }
        // wire identical under the full-write schedule
        if frag {
            match execute(&case.req, &WritePlan::default()) {
                Ok(r2) => {
                    if r2.wire != r.wire {
                        return Outcome {
                            fail: Some(Failure {
                                sig: "C01/wire/depends-on-write-schedule".into(),
                                msg: format!(
                                    "fragmented: {}\nfull:       {}",
                                    hex(&r.wire),
                                    hex(&r2.wire)
                                ),
                            }),
                            ..out
                        };
                    }
                }
                Err(e) => return Outcome::fail("C01/prologue", e),
            }
        }
        out
    }
}

/// Boundary grid: remaining length / property length exactly on the variable-byte-integer
/// steps.
fn grid(tier: Tier) -> Vec<Case> {
    let mut targets: Vec<usize> = vec![126, 127, 128, 129, 16382, 16383, 16384, 16385];
    if tier == Tier::Thorough {
        targets.extend([2_097_151usize, 2_097_152, 2_097_153]);
    }
    let mut out = vec![];
    let full = WritePlan::default();
    let mk_up = |total: usize| -> UserProps {
        // user properties whose encoded size (1+2+k+2+v each) sums to `total`
        let mut left = total;
        let mut v = vec![];
        while left > 0 {
            if left < 5 {
                return vec![]; // not representable
            }
            let take = left.min(5 + 60000);
            let (take, rest) = if left - take > 0 && left - take < 5 {
                (take - 5, left - take + 5)
            } else {
                (take, left - take)
            };
            v.push(("".to_string(), gen::make_string(take - 5, 0, 0)));
            left = rest;
        }
        v
    };
    for &t in &targets {
        // PUBLISH qos0: RL = 2+|topic| + 1 + payload
        let topic = "t".to_string();
        if t >= 4 {
            out.push(Case {
                req: Req::Ops {
                    ops: vec![(
                        0,
                        OpSpec::Publish(PublishSpec {
                            topic: Some(topic.clone()),
                            payload: Some(gen::make_bytes(t - 4, 1)),
                            ..Default::default()
                        }),
                    )],
                    batch: false,
                },
                write: full.clone(),
            });
        }
        // PUBLISH qos1 with property length exactly t
        let up = mk_up(t);
        if !up.is_empty() {
            out.push(Case {
                req: Req::Ops {
                    ops: vec![(
                        0,
                        OpSpec::Publish(PublishSpec {
                            qos: Some(1),
                            topic: Some(topic.clone()),
                            user_props: up.clone(),
                            ..Default::default()
                        }),
                    )],
                    batch: false,
                },
                write: full.clone(),
            });
            // SUBSCRIBE: property length = t (subscription id 1 takes 2 bytes)
            if t >= 7 {
                out.push(Case {
                    req: Req::Ops {
                        ops: vec![(
                            0,
                            OpSpec::Subscribe(SubscribeSpec {
                                filters: vec![("f".into(), SubOptsSpec::default())],
                                user_props: mk_up(t - 2),
                            }),
                        )],
                        batch: false,
                    },
                    write: full.clone(),
                });
            }
            out.push(Case {
                req: Req::Ops {
                    ops: vec![(
                        0,
                        OpSpec::Unsubscribe(UnsubscribeSpec {
                            filters: vec!["f".into()],
                            user_props: up.clone(),
                        }),
                    )],
                    batch: false,
                },
                write: full.clone(),
            });
            out.push(Case {
                req: Req::Ops {
                    ops: vec![(
                        0,
                        OpSpec::Disconnect(DisconnectSpec {
                            user_props: up.clone(),
                            ..Default::default()
                        }),
                    )],
                    batch: false,
                },
                write: full.clone(),
            });
            // CONNECT property length = t and will property length = t
            out.push(Case {
                req: Req::Connect(ConnectSpec {
                    user_props: up.clone(),
                    ..Default::default()
                }),
                write: full.clone(),
            });
            out.push(Case {
                req: Req::Connect(ConnectSpec {
                    will: Some(WillSpec {
                        topic: "w".into(),
                        payload: vec![1],
                        user_props: up.clone(),
                        ..Default::default()
                    }),
                    ..Default::default()
                }),
                write: full.clone(),
            });
            // AUTH: properties = method(1+2+1) + data(1+2+0) + user props
            if t >= 7 + 5 {
                out.push(Case {
                    req: Req::Authorize(AuthSpec {
                        reason: Some(0x18),
                        method: Some("m".into()),
                        data: Some(vec![]),
                        user_props: mk_up(t - 7),
                    }),
                    write: full.clone(),
                });
            }
        }
        // CONNECT remaining length = t: 10 + 1 + 2 + |client id|
        if t >= 13 && t - 13 <= 65535 {
            out.push(Case {
                req: Req::Connect(ConnectSpec {
                    client_id: Some(gen::make_string(t - 13, 0, 0)),
                    ..Default::default()
                }),
                write: full.clone(),
            });
        }
        // SUBSCRIBE remaining length via many filters: 2 + 1+2 + n*(2+|f|+1)
        if t > 20 && t < 100_000 {
            let mut left = t - 5;
            let mut filters = vec![];
            while left > 0 {
                if left < 4 {
                    filters.clear();
                    break;
                }
                let mut take = left.min(3 + 5000);
                if left - take > 0 && left - take < 4 {
                    take -= 4;
                }
                filters.push((gen::make_string(take - 3, 0, 1), SubOptsSpec::default()));
                left -= take;
            }
            if !filters.is_empty() {
                out.push(Case {
                    req: Req::Ops {
                        ops: vec![(0, OpSpec::Subscribe(SubscribeSpec { filters, user_props: vec![] }))],
                        batch: false,
                    },
                    write: full.clone(),
                });
            }
        }
    }
    // every SUBSET of the optional fields of each request type (small distinctive values)
    let bit = |m: u32, i: u32| m & (1 << i) != 0;
    for m in 0u32..(1 << 15) {
        out.push(Case {
            req: Req::Connect(ConnectSpec {
                client_id: bit(m, 0).then(|| "cid".to_string()),
                keep_alive: bit(m, 1).then_some(0x1234),
                clean_start: bit(m, 2).then_some(true),
                session_expiry: bit(m, 3).then_some(0x0102_0304),
                receive_maximum: bit(m, 4).then_some(0x0506),
                maximum_packet_size: bit(m, 5).then_some(0x0708_090a),
                topic_alias_maximum: bit(m, 6).then_some(0x0b0c),
                request_response_information: bit(m, 7).then_some(true),
                request_problem_information: bit(m, 8).then_some(false),
                auth_method: bit(m, 9).then(|| "am".to_string()),
                auth_data: bit(m, 10).then(|| vec![0xd1, 0xd2]),
                user_props: if bit(m, 11) { vec![("uk".into(), "uv".into())] } else { vec![] },
                will: bit(m, 12).then(|| WillSpec { topic: "wt".into(), payload: vec![0xee], ..Default::default() }),
                username: bit(m, 13).then(|| "un".to_string()),
                password: bit(m, 14).then(|| vec![0xf1, 0xf2, 0xf3]),
            }),
            write: full.clone(),
        });
    }
    for m in 0u32..(1 << 9) {
        out.push(Case {
            req: Req::Connect(ConnectSpec {
                will: Some(WillSpec {
                    qos: bit(m, 0).then_some(1 + (m as u8 & 1)),
                    retain: bit(m, 1).then_some(true),
                    delay_interval: bit(m, 2).then_some(0x0a0b_0c0d),
                    payload_format: bit(m, 3).then_some(true),
                    message_expiry: bit(m, 4).then_some(0x0e0f_1011),
                    content_type: bit(m, 5).then(|| "ct".to_string()),
                    response_topic: bit(m, 6).then(|| "rt".to_string()),
                    correlation_data: bit(m, 7).then(|| vec![0xc1]),
                    user_props: if bit(m, 8) { vec![("wk".into(), "wv".into()), ("wk".into(), "w2".into())] } else { vec![] },
                    topic: "wt".into(),
                    payload: vec![],
                }),
                username: Some("u".into()),
                ..Default::default()
            }),
            write: full.clone(),
        });
    }
    for q in 0u8..4 {
        for m in 0u32..(1 << 9) {
            out.push(Case {
                req: Req::Ops {
                    ops: vec![(
                        0,
                        OpSpec::Publish(PublishSpec {
                            qos: (q > 0).then(|| q - 1),
                            retain: bit(m, 0).then_some(true),
                            topic: Some("pt".into()),
                            payload: bit(m, 1).then(|| vec![0xaa, 0xbb]),
                            payload_format: bit(m, 2).then_some(false),
                            topic_alias: bit(m, 3).then_some(0x0102),
                            message_expiry: bit(m, 4).then_some(0x0304_0506),
                            correlation_data: bit(m, 5).then(|| vec![0xc2, 0xc3]),
                            response_topic: bit(m, 6).then(|| "rt".to_string()),
                            content_type: bit(m, 7).then(|| "ct".to_string()),
                            user_props: if bit(m, 8) { vec![("pk".into(), "pv".into())] } else { vec![] },
                        }),
                    )],
                    batch: false,
                },
                write: full.clone(),
            });
        }
    }
    for m in 0u32..(1 << 4) {
        out.push(Case {
            req: Req::Ops {
                ops: vec![(
                    0,
                    OpSpec::Disconnect(DisconnectSpec {
                        reason: bit(m, 0).then_some(0x04),
                        session_expiry: bit(m, 1).then_some(0x0a0b_0c0d),
                        reason_string: bit(m, 2).then(|| "bye".to_string()),
                        user_props: if bit(m, 3) { vec![("dk".into(), "dv".into())] } else { vec![] },
                    }),
                )],
                batch: false,
            },
            write: full.clone(),
        });
        for r in [None, Some(0u8), Some(0x18), Some(0x19)] {
            out.push(Case {
                req: Req::Authorize(AuthSpec {
                    reason: r,
                    method: bit(m, 0).then(|| "m".to_string()),
                    data: bit(m, 1).then(|| vec![0xda]),
                    user_props: if bit(m, 2) { vec![("ak".into(), "av".into())] } else { vec![] },
                }),
                write: if bit(m, 3) { WritePlan { per_call: 1, stall: Some(1) } } else { full.clone() },
            });
        }
    }
    // every enum value once
    for r in rc::DISCONNECT_REASONS {
        out.push(Case {
            req: Req::Ops {
                ops: vec![(0, OpSpec::Disconnect(DisconnectSpec { reason: Some(*r), ..Default::default() }))],
                batch: false,
            },
            write: full.clone(),
        });
    }
    for qos in 0..3u8 {
        for nl in [false, true] {
            for rap in [false, true] {
                for rh in 0..3u8 {
                    out.push(Case {
                        req: Req::Ops {
                            ops: vec![(
                                0,
                                OpSpec::Subscribe(SubscribeSpec {
                                    filters: vec![(
                                        "a/b".into(),
                                        SubOptsSpec {
                                            qos: Some(qos),
                                            no_local: Some(nl),
                                            retain_as_published: Some(rap),
                                            retain_handling: Some(rh),
                                        },
                                    )],
                                    user_props: vec![],
                                }),
                            )],
                            batch: false,
                        },
                        write: full.clone(),
                    });
                }
            }
        }
    }
    out
}
