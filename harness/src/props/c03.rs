//! C03 — framing is independent of how the byte stream is chunked; no lost wakeups.

use super::simprops::{deco, failure_for, sel};
use crate::driver::*;
use crate::gen::{chunk_plan, ChunkPlan};
use crate::sim::*;
use proptest::collection::vec;
use proptest::prelude::*;
use serde::{Deserialize, Serialize};

#[derive(Clone, Debug, Serialize, Deserialize)]
pub struct Case {
    /// outstanding work the inbound packets refer to
    pub subs: u8,
    pub pings: u8,
    pub pub1: u8,
    pub pub2: u8,
    pub items: Vec<Inbound>,
    pub plan: ChunkPlan,
    /// run the wake-only loop to quiescence after every chunk (else all chunks are
    /// queued first: reads then return one chunk each, back to back)
    pub settle_between: bool,
    pub read_cap: u16,
    pub read_yield: bool,
    pub eof_after: bool,
    /// variation of the connection prologue (see `connect_and_run_v`), e.g. a Context whose earlier
    /// connection died with input still buffered
    #[serde(default)]
    pub prologue: u8,
}

pub struct C03;

/// Two messages for one stream arrive in ONE read or in two; the acknowledgement of the first
/// cannot be written (the writer accepts nothing), run() is dropped there and called again once the
/// writer is free: how the bytes were cut into reads must not decide whether the second message is
/// seen. (What becomes of the first message's PUBACK is C08's business.)
fn burst_with_run_dropped_in_a_blocked_write(second_qos: u8) -> Option<Failure> {
    use super::common::*;
    use crate::api::*;
    use crate::refcodec as rc;
    use crate::world::World;
    let plan = WritePlan::default();
    let mut items = vec![];
    for one_read in [true, false] {
        let mut w = World::new();
        if connect_and_run(&mut w, ConnectSpec::default(), &default_connack(), &plan).is_err() {
            return None;
        }
        let mut tr = Tracker::new();
        tr.skip_existing(&mut w);
        let s = w.start_op(0, OpSpec::Subscribe(tagged_subscribe(0, 1)))?;
        settle(&mut w, &plan, true);
        tr.update(&mut w);
        let (spid, sid) = (tr.pid(s)?, tr.sub_id(s)?);
        feed_packet(&mut w, &rc::Packet::Suback(rc::AckList { pid: spid, reasons: vec![0], ..Default::default() }), &rc::Form::canonical());
        settle(&mut w, &plan, true);
        let stream = w.make_stream(s)?;
        let msg = |qos: u8, pid: u16, tag: u8| {
            rc::encode(
                &rc::Packet::Publish(rc::Publish { qos, pid: (qos > 0).then_some(pid), topic: "c03/burst".into(), payload: vec![tag; 3], subscription_ids: vec![sid], ..Default::default() }),
                &rc::Form::canonical(),
            )
        };
        // the writer accepts nothing from now on
        w.writer.grant(0);
        w.tick();
        let (a, b) = (msg(1, 51, 1), msg(second_qos, 52, 2));
        if one_read {
            let mut both = a.clone();
            both.extend(b.clone());
            w.reader.feed(both);
            settle(&mut w, &plan, true);
        } else {
            w.reader.feed(a);
            settle(&mut w, &plan, true);
        }
        if w.run_result.is_some() || !w.ctx_running() {
            return None;
        }
        // run() is dropped while the PUBACK of the first message waits for the writer
        if !w.cancel_run() {
            return None;
        }
        w.writer.unlimited();
        w.tick();
        if !w.start_run() {
            return None;
        }
        settle(&mut w, &plan, true);
        if !one_read {
            w.reader.feed(b);
            settle(&mut w, &plan, true);
        }
        if let Some(p) = first_panic(&w) {
            return Some(Failure { sig: format!("PANIC/{}", panic_sig(&p)), msg: p });
        }
        w.drain_stream(stream);
        items.push((w.streams[stream].items.len(), w.reader.unread(), w.run_result.clone()));
    }
    if items[0] != items[1] {
        return Some(Failure {
            sig: "C03/observables-depend-on-chunking/run-dropped-in-a-blocked-write".into(),
            msg: format!(
                "two messages, the first one's PUBACK blocked, run() dropped and called again: arriving in one read -> {} stream items ({} bytes unread, run {:?}); arriving in two reads -> {} stream items ({} bytes unread, run {:?})",
                items[0].0, items[0].1, items[0].2, items[1].0, items[1].1, items[1].2
            ),
        });
    }
    None
}

/// The client announced its own Maximum Packet Size M in CONNECT; the broker sends a message of
/// exactly M bytes followed by a 1000-byte one. Delivered one packet per read, or with the first
/// read ending `cut` bytes into the large packet and everything else in the next read: the same
/// stream items either way.
fn own_limit_and_a_cut_inside_a_maximal_packet(m: u32, cut: usize) -> Option<Failure> {
    use super::common::*;
    use crate::api::*;
    use crate::refcodec as rc;
    use crate::world::World;
    let plan = WritePlan::default();
    let mut seen = vec![];
    for per_packet in [true, false] {
        let mut w = World::new();
        let spec = ConnectSpec { maximum_packet_size: Some(m), ..Default::default() };
        if connect_and_run(&mut w, spec, &default_connack(), &plan).is_err() {
            return None;
        }
        let mut tr = Tracker::new();
        tr.skip_existing(&mut w);
        let s = w.start_op(0, OpSpec::Subscribe(tagged_subscribe(0, 1)))?;
        settle(&mut w, &plan, true);
        tr.update(&mut w);
        let (spid, sid) = (tr.pid(s)?, tr.sub_id(s)?);
        feed_packet(&mut w, &rc::Packet::Suback(rc::AckList { pid: spid, reasons: vec![0], ..Default::default() }), &rc::Form::canonical());
        settle(&mut w, &plan, true);
        let stream = w.make_stream(s)?;
        let msg = |n: usize, tag: u8| rc::encode(&rc::Packet::Publish(rc::Publish { qos: 0, topic: "c03/m".into(), payload: vec![tag; n], subscription_ids: vec![sid], ..Default::default() }), &rc::Form::canonical());
        // size the first message to exactly M bytes
        let mut n = m as usize - 16;
        for _ in 0..4 {
            let len = msg(n, 1).len();
            if len == m as usize {
                break;
            }
            n = (n + m as usize).saturating_sub(len);
        }
        let (a, b) = (msg(n, 1), msg(1000 - 16, 2));
        if a.len() != m as usize {
            return None;
        }
        w.tick();
        if per_packet {
            w.reader.feed(a);
            settle(&mut w, &plan, true);
            w.reader.feed(b);
        } else {
            let cut = cut.min(a.len() - 1).max(1);
            w.reader.feed(a[..cut].to_vec());
            settle(&mut w, &plan, true);
            let mut rest = a[cut..].to_vec();
            rest.extend(b);
            w.reader.feed(rest);
        }
        settle(&mut w, &plan, true);
        if let Some(p) = first_panic(&w) {
            return Some(Failure { sig: format!("PANIC/{}", panic_sig(&p)), msg: p });
        }
        w.drain_stream(stream);
        seen.push((w.streams[stream].items.len(), w.reader.unread(), w.run_result.clone()));
    }
    if seen[0] != seen[1] {
        return Some(Failure {
            sig: "C03/observables-depend-on-chunking/own-maximum-packet-size".into(),
            msg: format!(
                "CONNECT announced Maximum Packet Size {m}; a {m}-byte message then a 1000-byte one: one packet per read -> {} stream items ({} bytes unread, run {:?}); first read ending {cut} bytes into the large message, the rest in one read -> {} items ({} bytes unread, run {:?})",
                seen[0].0, seen[0].1, seen[0].2, seen[1].0, seen[1].1, seen[1].2
            ),
        });
    }
    None
}

fn transient_error_then_run_again(cut: usize, kind: usize) -> Option<Failure> {
    use super::common::*;
    use crate::api::*;
    use crate::refcodec as rc;
    use crate::world::World;
    const KINDS: [std::io::ErrorKind; 7] = [
        std::io::ErrorKind::TimedOut,
        std::io::ErrorKind::Interrupted,
        std::io::ErrorKind::ConnectionReset,
        std::io::ErrorKind::UnexpectedEof,
        std::io::ErrorKind::ConnectionAborted,
        std::io::ErrorKind::Other,
        std::io::ErrorKind::BrokenPipe,
    ];
    let plan = WritePlan::default();
    let mut w = World::new();
    if connect_and_run(&mut w, ConnectSpec::default(), &default_connack(), &plan).is_err() {
        return None;
    }
    let mut tr = Tracker::new();
    tr.skip_existing(&mut w);
    let s = w.start_op(0, OpSpec::Subscribe(tagged_subscribe(0, 1)))?;
    settle(&mut w, &plan, true);
    tr.update(&mut w);
    let (spid, sid) = (tr.pid(s)?, tr.sub_id(s)?);
    feed_packet(&mut w, &rc::Packet::Suback(rc::AckList { pid: spid, reasons: vec![0], ..Default::default() }), &rc::Form::canonical());
    settle(&mut w, &plan, true);
    let stream = w.make_stream(s)?;
    let bytes = rc::encode(
        &rc::Packet::Publish(rc::Publish { qos: 1, pid: Some(33), topic: "c03/again".into(), payload: vec![0x61; 40], subscription_ids: vec![sid], ..Default::default() }),
        &rc::Form::canonical(),
    );
    let k = 1 + cut % (bytes.len() - 1);
    w.tick();
    w.reader.feed(bytes[..k].to_vec());
    settle(&mut w, &plan, true);
    w.reader.set_err_once(KINDS[kind % KINDS.len()]);
    settle(&mut w, &plan, true);
    if w.run_result.is_none() {
        return None; // C13 judges how run() ends on a transport error
    }
    w.tick();
    if !w.start_run() {
        return None;
    }
    settle(&mut w, &plan, true);
    w.sync_wire();
    let before = w.pkts.len();
    w.reader.feed(bytes[k..].to_vec());
    settle(&mut w, &plan, true);
    if let Some(p) = first_panic(&w) {
        return Some(Failure { sig: format!("PANIC/{}", panic_sig(&p)), msg: p });
    }
    w.drain_stream(stream);
    w.sync_wire();
    let acked = w.pkts[before..].iter().any(|p| matches!(&p.decoded, Ok(rc::Packet::Puback(a)) if a.pid == 33));
    if w.streams[stream].items.len() != 1 || !acked || w.run_result.is_some() {
        return Some(Failure {
            sig: "C03/observables-depend-on-chunking/read-error-inside-a-packet".into(),
            msg: format!(
                "a {}-byte PUBLISH whose read failed ({:?}) after {k} bytes, run() called again on the same transport, the remaining {} bytes delivered: stream items {}, PUBACK written: {acked}, run() = {:?} (all of the packet's bytes were delivered, in order)",
                bytes.len(),
                KINDS[kind % KINDS.len()],
                bytes.len() - k,
                w.streams[stream].items.len(),
                w.run_result
            ),
        });
    }
    None
}

fn scenario(c: &Case, plan: ChunkPlan, settle_between: bool) -> Scenario {
    let mut ev = vec![];
    let ok = Deco::default();
    for _ in 0..c.subs {
        ev.push(Ev::Start { h: 0, kind: OpKind::Sub(0), settle: false, solo: false });
        ev.push(Ev::In(Inbound::Ack { sel: 0, deco: ok }));
    }
    for _ in 0..c.subs {
        ev.push(Ev::MakeStream { sel: 0 });
    }
    for _ in 0..c.pings {
        ev.push(Ev::Start { h: 0, kind: OpKind::Ping, settle: false, solo: false });
    }
    for _ in 0..c.pub1 {
        ev.push(Ev::Start { h: 0, kind: OpKind::Pub1, settle: false, solo: false });
    }
    for _ in 0..c.pub2 {
        ev.push(Ev::Start { h: 0, kind: OpKind::Pub2, settle: false, solo: false });
    }
    ev.push(Ev::Burst { items: c.items.clone(), plan, settle_between });
    if c.eof_after {
        ev.push(Ev::Terminate(Cause::Eof));
    }
    Scenario { receive_max: None, max_packet_size: None, id_offset: 0, prologue: c.prologue & 127, events: ev }
}

fn item() -> BoxedStrategy<Inbound> {
    let plen = prop_oneof![
        5 => 0u16..10,
        2 => 480u16..520,
        2 => 990u16..1040,
        1 => Just(4000u16),
        1 => Just(8000u16),
        1 => 0u16..3000,
    ];
    prop_oneof![
        6 => (0u8..3, any::<bool>(), any::<bool>(), sel(), plen).prop_map(|(qos, dup, retain, s, payload_len)| {
            Inbound::Publish { qos, dup, retain, pid: 0, target: Target::Sub(s), payload_len, props: 0 }
        }),
        5 => (sel(), deco()).prop_map(|(sel, deco)| Inbound::Ack { sel, deco }),
        1 => (1u16..9).prop_map(|pid| Inbound::Pubrel { pid, known: false }),
    ]
    .boxed()
}

impl Property for C03 {
    const ID: &'static str = "C03";
    const RULE: &'static str = "an inbound stream of 1-12 server packets whose effects are all observable (PUBLISH QoS 0/1/2 to live streams with payloads from 0 to 8000 bytes, PUBREL, PINGRESP / PUBACK / PUBREC / SUBACK for outstanding operations) cut into transport reads by a generated composition (1-byte, fixed sizes around 512/1024, random cuts, cuts at packet boundaries +-2, cuts at k*512+-2, everything at once; optional per-call cap and Pending-then-self-wake reader), and — exhaustively — all 2^(n-1) compositions of fixed short streams. Oracle: per-channel observables equal those of the run where every packet arrives in a read of its own; at every quiescent point of the wake-only executor no offered byte is unread and run() has not returned. Non-trivial = some packet spans >= 2 reads or some read contains >= 2 packets";
    type Case = Case;

    fn strategy(tier: Tier) -> BoxedStrategy<Case> {
        let s = (
            (1u8..4, 0u8..3, 0u8..4, 0u8..3),
            vec(item(), 1..tier.pick(12, 24)),
            chunk_plan(),
            any::<bool>(),
            prop_oneof![4 => Just(0u16), 2 => prop::sample::select(vec![1u16, 2, 3, 511, 512, 513])],
            prop::bool::weighted(0.2),
            prop::bool::weighted(0.3),
        )
            .prop_map(|((subs, pings, pub1, pub2), items, plan, settle_between, read_cap, read_yield, eof_after)| Case {
                subs,
                pings,
                pub1,
                pub2,
                items,
                plan,
                settle_between,
                read_cap,
                read_yield,
                eof_after,
                prologue: 0,
            })
            .boxed();
        (s, super::common::prologue_variant())
            .prop_map(|(mut c, p)| {
                c.prologue = p & 127;
                c
            })
            .boxed()
    }

    fn cases(tier: Tier) -> u32 {
        tier.pick(10_000, 150_000)
    }

    fn quick_profiles() -> &'static [&'static str] {
        &["checked", "release"]
    }

    fn exhaustive(tier: Tier, worker: usize, workers: usize) -> Box<dyn Iterator<Item = Case>> {
        let short = Deco { short: true, ..Default::default() };
        // PINGRESP(2) PUBACK(4) PUBREL(4) SUBACK(6): 16 bytes -> 2^15 compositions
        let s1 = Case {
            subs: 0,
            pings: 1,
            pub1: 1,
            pub2: 0,
            items: vec![
                Inbound::Ack { sel: 65535, deco: short }, // ping
                Inbound::Ack { sel: 0, deco: short },     // puback
                Inbound::Pubrel { pid: 7, known: false },
            ],
            plan: ChunkPlan::Whole,
            settle_between: true,
            read_cap: 0,
            read_yield: false,
            eof_after: false,
            prologue: 0,
        };
        // PUBACK PUBREC(short) + PUBLISH qos1 to a stream (~22 bytes)
        let s2 = Case {
            subs: 1,
            pings: 0,
            pub1: 1,
            pub2: 1,
            items: vec![
                Inbound::Ack { sel: 0, deco: short },
                Inbound::Publish { qos: 1, dup: false, retain: false, pid: 0, target: Target::Sub(0), payload_len: 0, props: 0 },
            ],
            plan: ChunkPlan::Whole,
            settle_between: false,
            read_cap: 0,
            read_yield: false,
            eof_after: true,
            prologue: 0,
        };
        let bits1 = tier.pick(9, 9); // 10 bytes
        let bits2: u32 = tier.pick(14, 20);
        let a = (0u32..(1 << bits1)).map(move |m| {
            let mut c = s1.clone();
            c.plan = ChunkPlan::Mask(m);
            c
        });
        let b = (0u32..(1 << bits2)).map(move |m| {
            let mut c = s2.clone();
            // spread the mask over the ~26-byte stream: low bits = first bytes
            c.plan = ChunkPlan::Mask(m | ((m & 0xff) << bits2));
            c.settle_between = m & 1 == 0;
            c
        });
        // remaining-length widths 3 and 4: 20 KiB and 2 MiB + 1 KiB payloads, coarse chunkings
        let mut big = vec![];
        let kibs: Vec<u16> = if tier == Tier::Thorough { vec![20, 2049] } else { vec![20] };
        for kib in kibs {
            for (plan, sb) in [
                (ChunkPlan::Whole, false),
                (ChunkPlan::Fixed(65535), true),
                (ChunkPlan::Fixed(4099), false),
                (ChunkPlan::Fixed(1), true),
                (ChunkPlan::Random(vec![1, 2, 3, 40000, 65000]), true),
                (ChunkPlan::NearBounds(vec![-1, 1]), false),
                (ChunkPlan::Mask(0xff0), true),
                (ChunkPlan::Mask(0x20), false),
                (ChunkPlan::Mask(0x40), true),
            ] {
                if kib > 100 && matches!(plan, ChunkPlan::Fixed(1)) {
                    continue; // 2 M one-byte reads: minutes, no new boundary
                }
                big.push(Case {
                    subs: 1,
                    pings: 1,
                    pub1: 0,
                    pub2: 0,
                    items: vec![
                        Inbound::Ack { sel: 0, deco: short },
                        Inbound::BigPublish { kib },
                        Inbound::Publish { qos: 1, dup: false, retain: false, pid: 0, target: Target::Sub(0), payload_len: 3, props: 0 },
                    ],
                    plan,
                    settle_between: sb,
                    read_cap: 0,
                    read_yield: false,
                    eof_after: true,
                    prologue: 0,
                });
            }
        }
        // packets beyond 64 KiB arriving in many reads, the last of which carries -1, 0, 1, 2 or 3
        // bytes of the packet that follows
        let kibs2: Vec<u16> = if tier == Tier::Thorough { vec![65, 70, 98, 300, 1100, 3100] } else { vec![70, 98, 1100] };
        for kib in kibs2 {
            for d in [-1i8, 0, 1, 2, 3] {
                for every in [30_000u32, 4_099, 65_536] {
                    big.push(Case {
                        subs: 1,
                        pings: 1,
                        pub1: 0,
                        pub2: 0,
                        items: vec![
                            Inbound::Ack { sel: 0, deco: short },
                            Inbound::BigPublish { kib },
                            Inbound::Publish { qos: 1, dup: false, retain: false, pid: 0, target: Target::Sub(0), payload_len: 3, props: 0 },
                            Inbound::BigPublish { kib: 66 },
                            Inbound::Ack { sel: 0, deco: short },
                        ],
                        plan: ChunkPlan::Mixed { deltas: vec![d], every },
                        // a quiet moment after every read (the reader goes Pending with the spill
                        // bytes buffered), or all reads back to back
                        settle_between: every != 30_000,
                        read_cap: 0,
                        read_yield: false,
                        eof_after: true,
                        prologue: 0,
                    });
                }
            }
        }
        Box::new(a.chain(b).chain(big).enumerate().filter(move |(i, _)| i % workers == worker).map(|(_, c)| c))
    }

    fn assumptions() -> Vec<String> {
        vec![
            "the mock reader never writes beyond the n bytes it reports and hands out at most one scripted chunk per poll_read".into(),
            "a read error in the middle of a packet ends run() but not the byte stream: run() called again on the same transport (no set_up) continues where the stream stopped, as the library's receive stream (which lives in the Context, not in run()) is built to do".into(),
            "a single global order of observables is not compared: several packets handled within one poll are legitimately observed together; per channel (each stream, the acknowledgement wire, each operation) order is compared".into(),
        ]
    }

    fn run(case: &Case) -> Outcome {
        let mut o = Outcome::ok();
        // a read that fails in the middle of a packet ends run(); calling run() again on the same
        // transport must pick the packet up where the stream stopped
        {
            let h = case_hash(case);
            if let Some(f) = transient_error_then_run_again((h % 60) as usize, (h / 60 % 7) as usize) {
                o.fail = Some(f);
                return o;
            }
            o.class("read-error-inside-a-packet-then-run-again");
            if let Some(f) = burst_with_run_dropped_in_a_blocked_write((h / 420 % 3) as u8) {
                o.fail = Some(f);
                return o;
            }
            o.class("burst-with-run-dropped-in-a-blocked-write");
            let m = [2048u32, 4096, 16_384, 65_536][(h / 1260 % 4) as usize];
            let cut = [1usize, 2, 3, 511, 512, 513, m as usize / 2 - 100, m as usize / 2, m as usize / 2 + 600, m as usize - 600, m as usize - 512, m as usize - 1][(h / 5040 % 12) as usize];
            if let Some(f) = own_limit_and_a_cut_inside_a_maximal_packet(m, cut) {
                o.fail = Some(f);
                return o;
            }
            o.class("own-maximum-packet-size-and-a-cut-inside-a-maximal-packet");
        }
        let cfg_ref = SimCfg::default();
        let reference = run(&scenario(case, ChunkPlan::PerPacket, true), &cfg_ref);
        if let Some(f) = failure_for(&reference, &["C03/"]) {
            o.fail = Some(Failure { sig: f.sig, msg: format!("[reference run, one read per packet] {}", f.msg) });
            return o;
        }
        let cfg = SimCfg {
            read_cap: case.read_cap,
            read_yield: case.read_yield,
            ..Default::default()
        };
        let out = run(&scenario(case, case.plan.clone(), case.settle_between), &cfg);
        o.nontrivial = out.stats.split_packets >= 1 || out.stats.multi_packet_reads >= 1;
        if out.stats.split_packets > 0 {
            o.class("packet-spans-reads");
        }
        if out.stats.multi_packet_reads > 0 {
            o.class("read-spans-packets");
        }
        o.class(match &case.plan {
            ChunkPlan::Whole => "plan-whole",
            ChunkPlan::PerPacket => "plan-per-packet",
            ChunkPlan::Fixed(1) => "plan-1-byte",
            ChunkPlan::Fixed(_) => "plan-fixed",
            ChunkPlan::Random(_) => "plan-random-cuts",
            ChunkPlan::NearBounds(_) => "plan-near-packet-boundaries",
            ChunkPlan::NearBuf(_) => "plan-near-512-multiples",
            ChunkPlan::Mask(_) => "plan-exhaustive-mask",
            ChunkPlan::Mixed { .. } => "plan-long-packet-with-spill",
        });
        if let Some(f) = failure_for(&out, &["C03/"]) {
            o.fail = Some(f);
            return o;
        }
        if out.proj != reference.proj {
            let what = if out.proj.run_result != reference.proj.run_result {
                if out.proj.run_result.is_some() && reference.proj.run_result.is_none() {
                    "run-ended-early"
                } else {
                    "run-result"
                }
            } else if out.proj.stream_items != reference.proj.stream_items {
                "stream-items"
            } else if out.proj.client_acks != reference.proj.client_acks {
                "acknowledgements-written"
            } else if out.proj.op_results != reference.proj.op_results {
                "operation-results"
            } else {
                "other"
            };
            let brief = |p: &Projections| {
                format!(
                    "run={:?} acks={:?} results={:?} items={:?}",
                    p.run_result,
                    p.client_acks,
                    p.op_results.iter().map(|r| r.as_ref().map(|x| x.short())).collect::<Vec<_>>(),
                    p.stream_items.iter().map(|(o, v)| (*o, v.len())).collect::<Vec<_>>()
                )
            };
            o.fail = Some(Failure {
                sig: format!("C03/observables-depend-on-chunking/{what}"),
                msg: format!("chunked run:   {}\n   one read per packet: {}", brief(&out.proj), brief(&reference.proj)),
            });
        }
        o
    }
}
