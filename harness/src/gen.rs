//! proptest strategies shared by the property modules: boundary-biased strings and
//! binaries, request specs, server packets, encoder forms, chunkings.

use crate::api::*;
use crate::refcodec as rc;
use proptest::collection::vec;
use proptest::option;
use proptest::prelude::*;

pub const BOUNDARY_LENS: &[usize] = &[0, 1, 2, 127, 128, 129, 16383, 16384, 65535];

const PALETTE: &[&str] = &[
    "a", "Z", "0", "/", "é", "ß", "€", "中", "😀", "𝄞", " ", "-", "~", "q", "λ", "7",
];

/// A string of exactly `len` bytes of UTF-8.
pub fn make_string(len: usize, kind: u8, salt: u8) -> String {
    let mut s = String::with_capacity(len);
    // now and then the string starts with U+FEFF, which a receiver must keep [MQTT-1.5.4-3]
    if salt % 16 == 5 && len >= 3 {
        s.push('\u{feff}');
    }
    let mut i = salt as usize;
    while s.len() < len {
        let c = match kind % 3 {
            0 => ["a", "b", "c", "x", "y", "0", "1", "/"][i % 8],
            1 => PALETTE[i % PALETTE.len()],
            _ => ["t", "/", "k", "é", "9"][i % 5],
        };
        if s.len() + c.len() <= len {
            s.push_str(c);
        } else {
            s.push('x');
        }
        i += 1;
    }
    s
}

pub fn make_bytes(len: usize, salt: u8) -> Vec<u8> {
    (0..len).map(|i| (i as u8).wrapping_mul(31).wrapping_add(salt)).collect()
}

/// Length distribution: half boundary values (when `big`), otherwise 0..small.
pub fn len_strategy(small: usize, big: bool) -> BoxedStrategy<usize> {
    if big {
        prop_oneof![
            6 => 0..small,
            2 => prop::sample::select(&BOUNDARY_LENS[..6]),
            1 => prop::sample::select(&BOUNDARY_LENS[6..]),
        ]
        .boxed()
    } else {
        prop_oneof![
            6 => 0..small,
            2 => prop::sample::select(&BOUNDARY_LENS[..6]),
        ]
        .boxed()
    }
}

pub fn string(small: usize, big: bool) -> BoxedStrategy<String> {
    (len_strategy(small, big), any::<u8>(), any::<u8>())
        .prop_map(|(l, k, s)| make_string(l, k, s))
        .boxed()
}

/// non-empty, no wildcards
pub fn topic_name(big: bool) -> BoxedStrategy<String> {
    (len_strategy(24, big), any::<u8>(), any::<u8>())
        .prop_map(|(l, k, s)| make_string(l.max(1), k, s))
        .boxed()
}

/// topic filters: arbitrary strings, and the forms MQTT gives a meaning to (wildcards, shared
/// subscriptions, $SYS)
pub fn topic_filter(big: bool) -> BoxedStrategy<String> {
    prop_oneof![
        6 => topic_name(big),
        1 => topic_name(false).prop_map(|t| format!("$share/g/{t}")),
        1 => topic_name(false).prop_map(|t| format!("$share/{t}/#")),
        1 => topic_name(false).prop_map(|t| format!("+/{t}/#")),
        1 => prop::sample::select(vec!["#", "+", "$SYS/#", "$share/g/#", "$share/a/+/b", "/", "a//b", "$share/g/$SYS/x"]).prop_map(String::from),
    ]
    .boxed()
}

pub fn binary(small: usize, big: bool) -> BoxedStrategy<Vec<u8>> {
    (len_strategy(small, big), any::<u8>())
        .prop_map(|(l, s)| make_bytes(l, s))
        .boxed()
}

pub fn user_props(max: usize) -> BoxedStrategy<UserProps> {
    vec((string(12, false), string(12, false)), 0..=max).boxed()
}

/// user properties with duplicate keys now and then
pub fn user_props_dups(max: usize) -> BoxedStrategy<UserProps> {
    vec(
        (
            prop_oneof![Just("k".to_string()), Just("".to_string()), string(8, false)],
            string(12, false),
        ),
        0..=max,
    )
    .boxed()
}

pub fn u16_edge() -> BoxedStrategy<u16> {
    prop_oneof![
        2 => prop::sample::select(vec![0u16, 1, 2, 127, 128, 255, 256, 16383, 16384, 65534, 65535]),
        1 => any::<u16>(),
    ]
    .boxed()
}
pub fn u16_nz() -> BoxedStrategy<u16> {
    u16_edge().prop_map(|v| v.max(1)).boxed()
}
pub fn u32_edge() -> BoxedStrategy<u32> {
    prop_oneof![
        2 => prop::sample::select(vec![0u32, 1, 127, 128, 65535, 65536, 268_435_455, 268_435_456, u32::MAX - 1, u32::MAX]),
        1 => any::<u32>(),
    ]
    .boxed()
}
pub fn u32_nz() -> BoxedStrategy<u32> {
    u32_edge().prop_map(|v| v.max(1)).boxed()
}

// ------------------------------------------------------------------------------------
// client request specs (C01 and friends)

pub fn will_spec(big: bool) -> BoxedStrategy<WillSpec> {
    (
        (
            option::of(0u8..3),
            option::of(any::<bool>()),
            option::of(u32_edge()),
            option::of(any::<bool>()),
            option::of(u32_edge()),
        ),
        (
            option::of(string(16, big)),
            option::of(string(16, big)),
            option::of(binary(16, big)),
            user_props(3),
            topic_name(big),
            binary(24, big),
        ),
    )
        .prop_map(|((qos, retain, delay, pf, me), (ct, rt, cd, up, topic, payload))| WillSpec {
            qos,
            retain,
            delay_interval: delay,
            payload_format: pf,
            message_expiry: me,
            content_type: ct,
            response_topic: rt,
            correlation_data: cd,
            user_props: up,
            topic,
            payload,
        })
        .boxed()
}

pub fn connect_spec(big: bool) -> BoxedStrategy<ConnectSpec> {
    (
        (
            option::of(string(16, big)),
            option::of(u16_edge()),
            option::of(any::<bool>()),
            option::of(u32_edge()),
            option::of(u16_nz()),
            option::of(u32_nz()),
            option::of(u16_edge()),
        ),
        (
            option::of(any::<bool>()),
            option::of(any::<bool>()),
            option::of(string(12, big)),
            option::of(binary(12, big)),
            user_props(4),
            option::of(will_spec(big)),
            option::of(string(12, big)),
            option::of(binary(12, big)),
        ),
    )
        .prop_map(
            |((cid, ka, cs, se, rm, mps, tam), (rri, rpi, am, ad, up, will, un, pw))| ConnectSpec {
                client_id: cid,
                keep_alive: ka,
                clean_start: cs,
                session_expiry: se,
                receive_maximum: rm,
                maximum_packet_size: mps,
                topic_alias_maximum: tam,
                request_response_information: rri,
                request_problem_information: rpi,
                auth_method: am,
                auth_data: ad,
                user_props: up,
                will,
                username: un,
                password: pw,
            },
        )
        .boxed()
}

pub fn auth_spec(big: bool) -> BoxedStrategy<AuthSpec> {
    (
        option::of(prop::sample::select(rc::AUTH_REASONS)),
        option::of(string(12, big)),
        option::of(binary(12, big)),
        user_props(3),
    )
        .prop_map(|(reason, method, data, up)| AuthSpec {
            reason,
            method,
            data,
            user_props: up,
        })
        .boxed()
}

/// `topic_p`: probability weight (out of 10) that the topic is present
pub fn publish_spec(big: bool, qos: BoxedStrategy<Option<u8>>, topic_w: u32) -> BoxedStrategy<PublishSpec> {
    (
        (
            qos,
            option::of(any::<bool>()),
            prop_oneof![topic_w => topic_name(big).prop_map(Some), (10 - topic_w) => Just(None)],
            option::of(binary(32, big)),
            option::of(any::<bool>()),
            option::of(u16_nz()),
        ),
        (
            option::of(u32_edge()),
            option::of(binary(12, big)),
            option::of(string(12, big)),
            option::of(string(12, big)),
            user_props(4),
        ),
    )
        .prop_map(|((qos, retain, topic, payload, pf, ta), (me, cd, rt, ct, up))| PublishSpec {
            qos,
            retain,
            topic,
            payload,
            payload_format: pf,
            topic_alias: ta,
            message_expiry: me,
            correlation_data: cd,
            response_topic: rt,
            content_type: ct,
            user_props: up,
        })
        .boxed()
}

pub fn any_qos_opt() -> BoxedStrategy<Option<u8>> {
    option::of(0u8..3).boxed()
}

pub fn sub_opts_spec() -> BoxedStrategy<SubOptsSpec> {
    (
        option::of(0u8..3),
        option::of(any::<bool>()),
        option::of(any::<bool>()),
        option::of(0u8..3),
    )
        .prop_map(|(qos, nl, rap, rh)| SubOptsSpec {
            qos,
            no_local: nl,
            retain_as_published: rap,
            retain_handling: rh,
        })
        .boxed()
}

pub fn subscribe_spec(big: bool, min_filters: usize) -> BoxedStrategy<SubscribeSpec> {
    (
        vec((topic_filter(big), sub_opts_spec()), min_filters..8),
        user_props(4),
    )
        .prop_map(|(filters, up)| SubscribeSpec {
            filters,
            user_props: up,
        })
        .boxed()
}

pub fn unsubscribe_spec(big: bool, min_filters: usize) -> BoxedStrategy<UnsubscribeSpec> {
    (vec(topic_filter(big), min_filters..8), user_props(4))
        .prop_map(|(filters, up)| UnsubscribeSpec {
            filters,
            user_props: up,
        })
        .boxed()
}

pub fn disconnect_spec(big: bool) -> BoxedStrategy<DisconnectSpec> {
    (
        option::of(prop::sample::select(rc::DISCONNECT_REASONS)),
        option::of(u32_edge()),
        option::of(string(16, big)),
        user_props(4),
    )
        .prop_map(|(reason, se, rs, up)| DisconnectSpec {
            reason,
            session_expiry: se,
            reason_string: rs,
            user_props: up,
        })
        .boxed()
}

// ------------------------------------------------------------------------------------
// server packets (C02 and friends)

pub fn form() -> BoxedStrategy<rc::Form> {
    (vec(any::<u8>(), 0..6), any::<bool>())
        .prop_map(|(order, short)| rc::Form { order, short })
        .boxed()
}

pub fn pid() -> BoxedStrategy<u16> {
    prop_oneof![
        2 => prop::sample::select(vec![1u16, 2, 127, 128, 255, 256, 16383, 16384, 65534, 65535]),
        1 => 1u16..=65535,
    ]
    .boxed()
}

pub fn sub_id() -> BoxedStrategy<u32> {
    prop_oneof![
        2 => prop::sample::select(vec![1u32, 2, 127, 128, 16383, 16384, 2_097_151, 2_097_152, 268_435_455]),
        1 => 1u32..=268_435_455,
    ]
    .boxed()
}

/// CONNACK with any legal property subset. `reason`: strategy for the reason code.
/// Subscription Identifiers Available = 0 is produced only when `allow_no_subids`.
pub fn connack(big: bool, reason: BoxedStrategy<u8>, allow_no_subids: bool) -> BoxedStrategy<rc::Connack> {
    let subids: BoxedStrategy<Option<bool>> = if allow_no_subids {
        option::of(any::<bool>()).boxed()
    } else {
        option::of(Just(true)).boxed()
    };
    (
        (
            any::<bool>(),
            reason,
            option::of(u32_edge()),
            option::of(u16_nz()),
            option::of(0u8..2),
            option::of(any::<bool>()),
            option::of(u32_nz()),
        ),
        (
            option::of(string(16, big)),
            option::of(u16_edge()),
            option::of(string(16, big)),
            user_props_dups(4),
            option::of(any::<bool>()),
            subids,
            option::of(any::<bool>()),
        ),
        (
            option::of(u16_edge()),
            option::of(string(12, big)),
            option::of(string(12, big)),
            option::of(string(12, big)),
            option::of(binary(12, big)),
        ),
    )
        .prop_map(
            |((sp, reason, se, rm, mq, ra, mps), (aci, tam, rs, up, wa, sia, sha), (ska, ri, sr, am, ad))| {
                rc::Connack {
                    // [MQTT-3.2.2-6] session present must be 0 with a non-zero reason
                    session_present: sp && reason == 0,
                    reason,
                    session_expiry: se,
                    receive_maximum: rm,
                    maximum_qos: mq,
                    retain_available: ra,
                    maximum_packet_size: mps,
                    assigned_client_id: aci,
                    topic_alias_maximum: tam,
                    reason_string: rs,
                    user_props: up,
                    wildcard_available: wa,
                    sub_ids_available: sia,
                    shared_available: sha,
                    server_keep_alive: ska,
                    response_information: ri,
                    server_reference: sr,
                    auth_method: am,
                    auth_data: ad,
                }
            },
        )
        .boxed()
}

pub fn ack(big: bool, pid: BoxedStrategy<u16>, reasons: &'static [u8]) -> BoxedStrategy<rc::Ack> {
    (
        pid,
        prop::sample::select(reasons),
        option::of(string(16, big)),
        user_props_dups(3),
    )
        .prop_map(|(pid, reason, rs, up)| rc::Ack {
            pid,
            reason,
            reason_string: rs,
            user_props: up,
        })
        .boxed()
}

pub fn ack_list(big: bool, pid: BoxedStrategy<u16>, reasons: &'static [u8], n: usize) -> BoxedStrategy<rc::AckList> {
    (
        pid,
        vec(prop::sample::select(reasons), n..=n),
        option::of(string(16, big)),
        user_props_dups(3),
    )
        .prop_map(|(pid, reasons, rs, up)| rc::AckList {
            pid,
            reasons,
            reason_string: rs,
            user_props: up,
        })
        .boxed()
}

pub const PAYLOAD_SIZES: &[usize] = &[
    0, 1, 2, 100, 127, 128, 500, 509, 510, 511, 512, 513, 514, 515, 1021, 1022, 1023, 1024, 1025,
    1026, 1027, 2048, 4096,
];

pub fn payload(big: bool) -> BoxedStrategy<Vec<u8>> {
    if big {
        prop_oneof![
            3 => (0usize..40, any::<u8>()).prop_map(|(l, s)| make_bytes(l, s)),
            2 => (prop::sample::select(PAYLOAD_SIZES), any::<u8>()).prop_map(|(l, s)| make_bytes(l, s)),
            1 => (0usize..6000, any::<u8>()).prop_map(|(l, s)| make_bytes(l, s)),
        ]
        .boxed()
    } else {
        (0usize..40, any::<u8>())
            .prop_map(|(l, s)| make_bytes(l, s))
            .boxed()
    }
}

/// Inbound PUBLISH. `alias`: whether a topic alias may be present.
pub fn server_publish(
    big: bool,
    qos: BoxedStrategy<u8>,
    sub_ids: BoxedStrategy<Vec<u32>>,
    alias: bool,
) -> BoxedStrategy<rc::Publish> {
    let alias_s: BoxedStrategy<Option<u16>> = if alias {
        option::of(u16_nz()).boxed()
    } else {
        Just(None).boxed()
    };
    (
        (qos, any::<bool>(), any::<bool>(), topic_name(big), pid()),
        (
            option::of(any::<bool>()),
            option::of(u32_edge()),
            alias_s,
            option::of(string(12, big)),
            option::of(binary(12, big)),
            user_props_dups(4),
            sub_ids,
            option::of(string(12, big)),
            payload(big),
        ),
    )
        .prop_map(|((qos, dup, retain, topic, pid), (pf, me, ta, rt, cd, up, sids, ct, payload))| {
            rc::Publish {
                dup: dup && qos > 0,
                qos,
                retain,
                topic,
                pid: if qos > 0 { Some(pid) } else { None },
                payload_format: pf,
                message_expiry: me,
                topic_alias: ta,
                response_topic: rt,
                correlation_data: cd,
                user_props: up,
                subscription_ids: sids,
                content_type: ct,
                payload,
            }
        })
        .boxed()
}

pub fn server_disconnect(big: bool, reason: BoxedStrategy<u8>) -> BoxedStrategy<rc::Disconnect> {
    (
        reason,
        option::of(string(16, big)),
        option::of(string(16, big)),
        user_props_dups(3),
    )
        .prop_map(|(reason, rs, sr, up)| rc::Disconnect {
            reason,
            session_expiry: None,
            reason_string: rs,
            server_reference: sr,
            user_props: up,
        })
        .boxed()
}

pub fn server_auth(big: bool) -> BoxedStrategy<rc::Auth> {
    (
        prop::sample::select(rc::SERVER_AUTH_REASONS),
        string(12, big),
        option::of(binary(12, big)),
        option::of(string(12, big)),
        user_props_dups(3),
    )
        .prop_map(|(reason, method, data, rs, up)| rc::Auth {
            reason,
            method: Some(method),
            data,
            reason_string: rs,
            user_props: up,
        })
        .boxed()
}

// ------------------------------------------------------------------------------------
// chunkings of a byte stream into reads

#[derive(Clone, Debug, PartialEq, Eq, serde::Serialize, serde::Deserialize)]
pub enum Chunking {
    /// everything in one chunk
    Whole,
    /// n-byte chunks
    Fixed(usize),
    /// cut after each of these cumulative offsets (sorted, deduplicated on use)
    Cuts(Vec<u32>),
    /// one chunk per packet (reference framing)
    PerPacket,
}

impl Chunking {
    pub fn apply(&self, bytes: &[u8], packet_bounds: &[usize]) -> Vec<Vec<u8>> {
        let mut cuts: Vec<usize> = match self {
            Chunking::Whole => vec![],
            Chunking::Fixed(n) => {
                let n = (*n).max(1);
                (1..).map(|i| i * n).take_while(|c| *c < bytes.len()).collect()
            }
            Chunking::Cuts(c) => c
                .iter()
                .map(|x| *x as usize)
                .filter(|x| *x > 0 && *x < bytes.len())
                .collect(),
            Chunking::PerPacket => packet_bounds
                .iter()
                .copied()
                .filter(|x| *x > 0 && *x < bytes.len())
                .collect(),
        };
        cuts.sort_unstable();
        cuts.dedup();
        let mut out = Vec::with_capacity(cuts.len() + 1);
        let mut prev = 0;
        for c in cuts {
            out.push(bytes[prev..c].to_vec());
            prev = c;
        }
        if prev < bytes.len() {
            out.push(bytes[prev..].to_vec());
        }
        out
    }
}

/// Chunking strategies given the stream length and packet boundaries are not known at
/// generation time: cut positions are expressed relative (per-mille of the stream and
/// offsets around boundaries are resolved by `resolve_cuts`).
#[derive(Clone, Debug, PartialEq, Eq, serde::Serialize, serde::Deserialize)]
pub enum ChunkPlan {
    Whole,
    PerPacket,
    Fixed(u16),
    /// random cut positions as 16-bit fractions of the stream length
    Random(Vec<u16>),
    /// cuts at packet boundaries shifted by these deltas (one per boundary, cyclic)
    NearBounds(Vec<i8>),
    /// cuts at k*512 + delta
    NearBuf(Vec<i8>),
    /// cut after byte i+1 iff bit i is set (exhaustive compositions of short streams)
    Mask(u32),
    /// cuts every `every` bytes AND at the packet boundaries shifted by the deltas: a long packet
    /// arrives in many reads and its last read carries 0, 1, 2.. bytes of the next packet
    Mixed { deltas: Vec<i8>, every: u32 },
}

impl ChunkPlan {
    pub fn resolve(&self, len: usize, bounds: &[usize]) -> Chunking {
        match self {
            ChunkPlan::Whole => Chunking::Whole,
            ChunkPlan::PerPacket => Chunking::PerPacket,
            ChunkPlan::Fixed(n) => Chunking::Fixed(*n as usize),
            ChunkPlan::Random(fr) => Chunking::Cuts(
                fr.iter()
                    .map(|f| ((*f as u64 * (len as u64 + 1)) >> 16) as u32)
                    .collect(),
            ),
            ChunkPlan::NearBounds(ds) => {
                if ds.is_empty() {
                    return Chunking::PerPacket;
                }
                Chunking::Cuts(
                    bounds
                        .iter()
                        .enumerate()
                        .map(|(i, b)| (*b as i64 + ds[i % ds.len()] as i64).max(0) as u32)
                        .collect(),
                )
            }
            ChunkPlan::Mixed { deltas, every } => {
                let mut cuts: Vec<u32> = vec![];
                let e = (*every).max(1) as usize;
                let mut k = e;
                while k < len {
                    cuts.push(k as u32);
                    k += e;
                }
                for (i, b) in bounds.iter().enumerate() {
                    let d = if deltas.is_empty() { 0 } else { deltas[i % deltas.len()] };
                    cuts.push((*b as i64 + d as i64).max(0) as u32);
                }
                cuts.sort();
                cuts.dedup();
                Chunking::Cuts(cuts)
            }
            ChunkPlan::Mask(m) => Chunking::Cuts(
                (0..32u32)
                    .filter(|i| m & (1 << i) != 0)
                    .map(|i| i + 1)
                    .collect(),
            ),
            ChunkPlan::NearBuf(ds) => {
                if ds.is_empty() {
                    return Chunking::Fixed(512);
                }
                Chunking::Cuts(
                    (1..=(len / 512 + 1))
                        .map(|k| (k as i64 * 512 + ds[(k - 1) % ds.len()] as i64).max(0) as u32)
                        .collect(),
                )
            }
        }
    }
}

pub fn chunk_plan() -> BoxedStrategy<ChunkPlan> {
    prop_oneof![
        1 => Just(ChunkPlan::Whole),
        1 => Just(ChunkPlan::PerPacket),
        3 => prop::sample::select(vec![1u16, 2, 3, 5, 7, 64, 511, 512, 513, 1023, 1024, 1025]).prop_map(ChunkPlan::Fixed),
        3 => vec(any::<u16>(), 1..12).prop_map(ChunkPlan::Random),
        3 => vec(-2i8..=2, 1..6).prop_map(ChunkPlan::NearBounds),
        2 => vec(-2i8..=2, 1..4).prop_map(ChunkPlan::NearBuf),
    ]
    .boxed()
}
