//! Independent MQTT 5.0 reference codec written from the OASIS text. Shares no code with
//! `poster`. Strict decoder (both directions), configurable encoder (property order,
//! short forms), reference framing.

use serde::{Deserialize, Serialize};

pub type UserProps = Vec<(String, String)>;

#[derive(Clone, Copy, Debug, PartialEq, Eq)]
pub enum Dir {
    /// packet sent by a client (CONNECT, SUBSCRIBE, ...)
    FromClient,
    /// packet sent by a server (CONNACK, SUBACK, ...)
    FromServer,
}

#[derive(Clone, Debug, PartialEq, Eq, Serialize, Deserialize, Default)]
pub struct Will {
    pub qos: u8,
    pub retain: bool,
    pub delay_interval: Option<u32>,
    pub payload_format: Option<bool>,
    pub message_expiry: Option<u32>,
    pub content_type: Option<String>,
    pub response_topic: Option<String>,
    pub correlation_data: Option<Vec<u8>>,
    pub user_props: UserProps,
    pub topic: String,
    pub payload: Vec<u8>,
}

#[derive(Clone, Debug, PartialEq, Eq, Serialize, Deserialize, Default)]
pub struct Connect {
    pub clean_start: bool,
    pub keep_alive: u16,
    pub session_expiry: Option<u32>,
    pub receive_maximum: Option<u16>,
    pub maximum_packet_size: Option<u32>,
    pub topic_alias_maximum: Option<u16>,
    pub request_response_information: Option<bool>,
    pub request_problem_information: Option<bool>,
    pub auth_method: Option<String>,
    pub auth_data: Option<Vec<u8>>,
    pub user_props: UserProps,
    pub client_id: String,
    pub will: Option<Will>,
    pub username: Option<String>,
    pub password: Option<Vec<u8>>,
}

#[derive(Clone, Debug, PartialEq, Eq, Serialize, Deserialize, Default)]
pub struct Connack {
    pub session_present: bool,
    pub reason: u8,
    pub session_expiry: Option<u32>,
    pub receive_maximum: Option<u16>,
    pub maximum_qos: Option<u8>,
    pub retain_available: Option<bool>,
    pub maximum_packet_size: Option<u32>,
    pub assigned_client_id: Option<String>,
    pub topic_alias_maximum: Option<u16>,
    pub reason_string: Option<String>,
    pub user_props: UserProps,
    pub wildcard_available: Option<bool>,
    pub sub_ids_available: Option<bool>,
    pub shared_available: Option<bool>,
    pub server_keep_alive: Option<u16>,
    pub response_information: Option<String>,
    pub server_reference: Option<String>,
    pub auth_method: Option<String>,
    pub auth_data: Option<Vec<u8>>,
}

#[derive(Clone, Debug, PartialEq, Eq, Serialize, Deserialize, Default)]
pub struct Publish {
    pub dup: bool,
    pub qos: u8,
    pub retain: bool,
    pub topic: String,
    pub pid: Option<u16>,
    pub payload_format: Option<bool>,
    pub message_expiry: Option<u32>,
    pub topic_alias: Option<u16>,
    pub response_topic: Option<String>,
    pub correlation_data: Option<Vec<u8>>,
    pub user_props: UserProps,
    pub subscription_ids: Vec<u32>,
    pub content_type: Option<String>,
    pub payload: Vec<u8>,
}

#[derive(Clone, Debug, PartialEq, Eq, Serialize, Deserialize, Default)]
pub struct Ack {
    pub pid: u16,
    pub reason: u8,
    pub reason_string: Option<String>,
    pub user_props: UserProps,
}

#[derive(Clone, Copy, Debug, PartialEq, Eq, Serialize, Deserialize, Default)]
pub struct SubOpts {
    pub qos: u8,
    pub no_local: bool,
    pub retain_as_published: bool,
    pub retain_handling: u8,
}

#[derive(Clone, Debug, PartialEq, Eq, Serialize, Deserialize, Default)]
pub struct Subscribe {
    pub pid: u16,
    pub sub_id: Option<u32>,
    pub user_props: UserProps,
    pub filters: Vec<(String, SubOpts)>,
}

#[derive(Clone, Debug, PartialEq, Eq, Serialize, Deserialize, Default)]
pub struct Unsubscribe {
    pub pid: u16,
    pub user_props: UserProps,
    pub filters: Vec<String>,
}

/// SUBACK / UNSUBACK
#[derive(Clone, Debug, PartialEq, Eq, Serialize, Deserialize, Default)]
pub struct AckList {
    pub pid: u16,
    pub reason_string: Option<String>,
    pub user_props: UserProps,
    pub reasons: Vec<u8>,
}

#[derive(Clone, Debug, PartialEq, Eq, Serialize, Deserialize, Default)]
pub struct Disconnect {
    pub reason: u8,
    pub session_expiry: Option<u32>,
    pub reason_string: Option<String>,
    pub server_reference: Option<String>,
    pub user_props: UserProps,
}

#[derive(Clone, Debug, PartialEq, Eq, Serialize, Deserialize, Default)]
pub struct Auth {
    pub reason: u8,
    pub method: Option<String>,
    pub data: Option<Vec<u8>>,
    pub reason_string: Option<String>,
    pub user_props: UserProps,
}

#[derive(Clone, Debug, PartialEq, Eq, Serialize, Deserialize)]
pub enum Packet {
    Connect(Connect),
    Connack(Connack),
    Publish(Publish),
    Puback(Ack),
    Pubrec(Ack),
    Pubrel(Ack),
    Pubcomp(Ack),
    Subscribe(Subscribe),
    Suback(AckList),
    Unsubscribe(Unsubscribe),
    Unsuback(AckList),
    Pingreq,
    Pingresp,
    Disconnect(Disconnect),
    Auth(Auth),
}

impl Packet {
    pub fn type_nibble(&self) -> u8 {
        match self {
            Packet::Connect(_) => 1,
            Packet::Connack(_) => 2,
            Packet::Publish(_) => 3,
            Packet::Puback(_) => 4,
            Packet::Pubrec(_) => 5,
            Packet::Pubrel(_) => 6,
            Packet::Pubcomp(_) => 7,
            Packet::Subscribe(_) => 8,
            Packet::Suback(_) => 9,
            Packet::Unsubscribe(_) => 10,
            Packet::Unsuback(_) => 11,
            Packet::Pingreq => 12,
            Packet::Pingresp => 13,
            Packet::Disconnect(_) => 14,
            Packet::Auth(_) => 15,
        }
    }
    pub fn name(&self) -> &'static str {
        TYPE_NAMES[self.type_nibble() as usize]
    }
    /// packet identifier, when the type has one
    pub fn pid(&self) -> Option<u16> {
        match self {
            Packet::Publish(p) => p.pid,
            Packet::Puback(a) | Packet::Pubrec(a) | Packet::Pubrel(a) | Packet::Pubcomp(a) => {
                Some(a.pid)
            }
            Packet::Subscribe(s) => Some(s.pid),
            Packet::Unsubscribe(s) => Some(s.pid),
            Packet::Suback(s) | Packet::Unsuback(s) => Some(s.pid),
            _ => None,
        }
    }
}

pub const TYPE_NAMES: [&str; 16] = [
    "RESERVED0",
    "CONNECT",
    "CONNACK",
    "PUBLISH",
    "PUBACK",
    "PUBREC",
    "PUBREL",
    "PUBCOMP",
    "SUBSCRIBE",
    "SUBACK",
    "UNSUBSCRIBE",
    "UNSUBACK",
    "PINGREQ",
    "PINGRESP",
    "DISCONNECT",
    "AUTH",
];

// ------------------------------------------------------------------------------------
// reason-code tables (MQTT 5.0 §2.4 and the per-packet sections)

pub const CONNACK_REASONS: &[u8] = &[
    0x00, 0x80, 0x81, 0x82, 0x83, 0x84, 0x85, 0x86, 0x87, 0x88, 0x89, 0x8a, 0x8c, 0x90, 0x95, 0x97,
    0x99, 0x9a, 0x9b, 0x9c, 0x9d, 0x9f,
];
pub const PUBACK_REASONS: &[u8] = &[0x00, 0x10, 0x80, 0x83, 0x87, 0x90, 0x91, 0x97, 0x99];
pub const PUBREC_REASONS: &[u8] = PUBACK_REASONS;
pub const PUBREL_REASONS: &[u8] = &[0x00, 0x92];
pub const PUBCOMP_REASONS: &[u8] = &[0x00, 0x92];
pub const SUBACK_REASONS: &[u8] = &[
    0x00, 0x01, 0x02, 0x80, 0x83, 0x87, 0x8f, 0x91, 0x97, 0x9e, 0xa1, 0xa2,
];
pub const UNSUBACK_REASONS: &[u8] = &[0x00, 0x11, 0x80, 0x83, 0x87, 0x8f, 0x91];
/// every DISCONNECT reason code of the standard
pub const DISCONNECT_REASONS: &[u8] = &[
    0x00, 0x04, 0x80, 0x81, 0x82, 0x83, 0x87, 0x89, 0x8b, 0x8d, 0x8e, 0x8f, 0x90, 0x93, 0x94, 0x95,
    0x96, 0x97, 0x98, 0x99, 0x9a, 0x9b, 0x9c, 0x9d, 0x9e, 0x9f, 0xa0, 0xa1, 0xa2,
];
/// those a server may send (0x04 is client-only)
pub const SERVER_DISCONNECT_REASONS: &[u8] = &[
    0x00, 0x80, 0x81, 0x82, 0x83, 0x87, 0x89, 0x8b, 0x8d, 0x8e, 0x8f, 0x90, 0x93, 0x94, 0x95, 0x96,
    0x97, 0x98, 0x99, 0x9a, 0x9b, 0x9c, 0x9d, 0x9e, 0x9f, 0xa0, 0xa1, 0xa2,
];
pub const AUTH_REASONS: &[u8] = &[0x00, 0x18, 0x19];
/// AUTH reasons a server may send
pub const SERVER_AUTH_REASONS: &[u8] = &[0x00, 0x18];

// ------------------------------------------------------------------------------------
// errors

#[derive(Clone, Debug, PartialEq, Eq)]
pub struct Malformed(pub String);

fn bad<T>(msg: impl Into<String>) -> Result<T, Malformed> {
    Err(Malformed(msg.into()))
}

// ------------------------------------------------------------------------------------
// primitive writers

pub fn put_varint(out: &mut Vec<u8>, mut v: u32) {
    assert!(v <= 268_435_455);
    loop {
        let mut b = (v % 128) as u8;
        v /= 128;
        if v > 0 {
            b |= 0x80;
        }
        out.push(b);
        if v == 0 {
            break;
        }
    }
}

pub fn varint_len(v: u32) -> usize {
    match v {
        0..=127 => 1,
        128..=16383 => 2,
        16384..=2_097_151 => 3,
        _ => 4,
    }
}

fn put_u16(out: &mut Vec<u8>, v: u16) {
    out.extend_from_slice(&v.to_be_bytes());
}
fn put_u32(out: &mut Vec<u8>, v: u32) {
    out.extend_from_slice(&v.to_be_bytes());
}
fn put_bin(out: &mut Vec<u8>, v: &[u8]) {
    assert!(v.len() <= 65535);
    put_u16(out, v.len() as u16);
    out.extend_from_slice(v);
}
fn put_str(out: &mut Vec<u8>, v: &str) {
    put_bin(out, v.as_bytes());
}

// ------------------------------------------------------------------------------------
// primitive readers (strict)

struct Rd<'a> {
    b: &'a [u8],
    pos: usize,
}

impl<'a> Rd<'a> {
    fn new(b: &'a [u8]) -> Self {
        Self { b, pos: 0 }
    }
    fn left(&self) -> usize {
        self.b.len() - self.pos
    }
    fn u8(&mut self) -> Result<u8, Malformed> {
        if self.left() < 1 {
            return bad("truncated (u8)");
        }
        let v = self.b[self.pos];
        self.pos += 1;
        Ok(v)
    }
    fn u16(&mut self) -> Result<u16, Malformed> {
        if self.left() < 2 {
            return bad("truncated (u16)");
        }
        let v = u16::from_be_bytes([self.b[self.pos], self.b[self.pos + 1]]);
        self.pos += 2;
        Ok(v)
    }
    fn u32(&mut self) -> Result<u32, Malformed> {
        if self.left() < 4 {
            return bad("truncated (u32)");
        }
        let v = u32::from_be_bytes([
            self.b[self.pos],
            self.b[self.pos + 1],
            self.b[self.pos + 2],
            self.b[self.pos + 3],
        ]);
        self.pos += 4;
        Ok(v)
    }
    fn varint(&mut self) -> Result<u32, Malformed> {
        let mut v: u32 = 0;
        for i in 0..4 {
            let b = self.u8()?;
            v |= ((b & 0x7f) as u32) << (7 * i);
            if b & 0x80 == 0 {
                if varint_len(v) != i + 1 {
                    return bad("non-minimal variable byte integer");
                }
                return Ok(v);
            }
        }
        bad("variable byte integer longer than 4 bytes")
    }
    fn take(&mut self, n: usize) -> Result<&'a [u8], Malformed> {
        if self.left() < n {
            return bad(format!("truncated (need {n}, have {})", self.left()));
        }
        let s = &self.b[self.pos..self.pos + n];
        self.pos += n;
        Ok(s)
    }
    fn bin(&mut self) -> Result<Vec<u8>, Malformed> {
        let n = self.u16()? as usize;
        Ok(self.take(n)?.to_vec())
    }
    fn string(&mut self) -> Result<String, Malformed> {
        let n = self.u16()? as usize;
        let raw = self.take(n)?;
        match std::str::from_utf8(raw) {
            Ok(s) => {
                if s.contains('\u{0}') {
                    return bad("U+0000 in UTF-8 string");
                }
                Ok(s.to_string())
            }
            Err(_) => bad("ill-formed UTF-8"),
        }
    }
    fn rest(&mut self) -> &'a [u8] {
        let s = &self.b[self.pos..];
        self.pos = self.b.len();
        s
    }
}

// ------------------------------------------------------------------------------------
// properties

#[derive(Clone, Debug, PartialEq, Eq)]
pub enum PVal {
    Byte(u8),
    U16(u16),
    U32(u32),
    VarInt(u32),
    Str(String),
    Bin(Vec<u8>),
    Pair(String, String),
}

#[derive(Clone, Debug, PartialEq, Eq)]
pub struct Prop {
    pub id: u8,
    pub val: PVal,
}

#[derive(Clone, Copy, PartialEq, Eq)]
enum PT {
    Byte,
    U16,
    U32,
    VarInt,
    Str,
    Bin,
    Pair,
}

fn prop_type(id: u8) -> Option<PT> {
    Some(match id {
        1 | 23 | 25 | 36 | 37 | 40 | 41 | 42 => PT::Byte,
        19 | 33 | 34 | 35 => PT::U16,
        2 | 17 | 24 | 39 => PT::U32,
        11 => PT::VarInt,
        3 | 8 | 18 | 21 | 26 | 28 | 31 => PT::Str,
        9 | 22 => PT::Bin,
        38 => PT::Pair,
        _ => return None,
    })
}

fn encode_props(props: &[Prop]) -> Vec<u8> {
    let mut body = Vec::new();
    for p in props {
        body.push(p.id);
        match &p.val {
            PVal::Byte(v) => body.push(*v),
            PVal::U16(v) => put_u16(&mut body, *v),
            PVal::U32(v) => put_u32(&mut body, *v),
            PVal::VarInt(v) => put_varint(&mut body, *v),
            PVal::Str(v) => put_str(&mut body, v),
            PVal::Bin(v) => put_bin(&mut body, v),
            PVal::Pair(k, v) => {
                put_str(&mut body, k);
                put_str(&mut body, v);
            }
        }
    }
    let mut out = Vec::new();
    put_varint(&mut out, body.len() as u32);
    out.extend_from_slice(&body);
    out
}

/// Reads `property length` + properties; checks ids against `allowed`, types, value
/// ranges and single occurrence (`multi` lists the ids that may repeat).
fn decode_props(rd: &mut Rd, allowed: &[u8], multi: &[u8]) -> Result<Vec<Prop>, Malformed> {
    let len = rd.varint()? as usize;
    let raw = rd.take(len).map_err(|_| Malformed("property length exceeds packet".into()))?;
    let mut r = Rd::new(raw);
    let mut out: Vec<Prop> = Vec::new();
    while r.left() > 0 {
        let id = r.varint()?; // the identifier is a variable byte integer
        if id > 255 {
            return bad("unknown property id");
        }
        let id = id as u8;
        let pt = match prop_type(id) {
            Some(t) => t,
            None => return bad(format!("unknown property id {id}")),
        };
        if !allowed.contains(&id) {
            return bad(format!("property {id} not allowed in this packet"));
        }
        if !multi.contains(&id) && out.iter().any(|p| p.id == id) {
            return bad(format!("property {id} occurs twice"));
        }
        let val = match pt {
            PT::Byte => {
                let v = r.u8()?;
                match id {
                    36 => {
                        if v > 1 {
                            return bad("Maximum QoS must be 0 or 1");
                        }
                    }
                    _ => {
                        if v > 1 {
                            return bad(format!("property {id} must be 0 or 1"));
                        }
                    }
                }
                PVal::Byte(v)
            }
            PT::U16 => {
                let v = r.u16()?;
                if (id == 33 || id == 35) && v == 0 {
                    return bad(format!("property {id} must not be 0"));
                }
                PVal::U16(v)
            }
            PT::U32 => {
                let v = r.u32()?;
                if id == 39 && v == 0 {
                    return bad("Maximum Packet Size must not be 0");
                }
                PVal::U32(v)
            }
            PT::VarInt => {
                let v = r.varint()?;
                if v == 0 {
                    return bad("Subscription Identifier must not be 0");
                }
                PVal::VarInt(v)
            }
            PT::Str => PVal::Str(r.string()?),
            PT::Bin => PVal::Bin(r.bin()?),
            PT::Pair => {
                let k = r.string()?;
                let v = r.string()?;
                PVal::Pair(k, v)
            }
        };
        out.push(Prop { id, val });
    }
    Ok(out)
}

struct PropBag(Vec<Prop>);

impl PropBag {
    fn byte(&self, id: u8) -> Option<u8> {
        self.0.iter().find(|p| p.id == id).map(|p| match &p.val {
            PVal::Byte(v) => *v,
            _ => unreachable!(),
        })
    }
    fn flag(&self, id: u8) -> Option<bool> {
        self.byte(id).map(|v| v != 0)
    }
    fn u16(&self, id: u8) -> Option<u16> {
        self.0.iter().find(|p| p.id == id).map(|p| match &p.val {
            PVal::U16(v) => *v,
            _ => unreachable!(),
        })
    }
    fn u32(&self, id: u8) -> Option<u32> {
        self.0.iter().find(|p| p.id == id).map(|p| match &p.val {
            PVal::U32(v) => *v,
            _ => unreachable!(),
        })
    }
    fn string(&self, id: u8) -> Option<String> {
        self.0.iter().find(|p| p.id == id).map(|p| match &p.val {
            PVal::Str(v) => v.clone(),
            _ => unreachable!(),
        })
    }
    fn bin(&self, id: u8) -> Option<Vec<u8>> {
        self.0.iter().find(|p| p.id == id).map(|p| match &p.val {
            PVal::Bin(v) => v.clone(),
            _ => unreachable!(),
        })
    }
    fn varints(&self, id: u8) -> Vec<u32> {
        self.0
            .iter()
            .filter(|p| p.id == id)
            .map(|p| match &p.val {
                PVal::VarInt(v) => *v,
                _ => unreachable!(),
            })
            .collect()
    }
    fn user(&self) -> UserProps {
        self.0
            .iter()
            .filter(|p| p.id == 38)
            .map(|p| match &p.val {
                PVal::Pair(k, v) => (k.clone(), v.clone()),
                _ => unreachable!(),
            })
            .collect()
    }
}

// ------------------------------------------------------------------------------------
// encoder

/// Encoding choices the standard leaves open.
#[derive(Clone, Debug, PartialEq, Eq, Serialize, Deserialize, Default)]
pub struct Form {
    /// sort keys applied cyclically to the property list (stable sort); empty = canonical
    pub order: Vec<u8>,
    /// use the shortest form the standard allows (PUBACK-family RL=2 when reason 0 and no
    /// properties, RL=3 when no properties; DISCONNECT RL=0/1; AUTH RL=0)
    pub short: bool,
}

impl Form {
    pub fn canonical() -> Self {
        Self::default()
    }
    pub fn short() -> Self {
        Self {
            order: vec![],
            short: true,
        }
    }
}

fn reorder(mut props: Vec<Prop>, order: &[u8]) -> Vec<Prop> {
    if order.is_empty() || props.len() < 2 {
        return props;
    }
    let mut keyed: Vec<(u8, usize, Prop)> = props
        .drain(..)
        .enumerate()
        .map(|(i, p)| (order[i % order.len()], i, p))
        .collect();
    keyed.sort_by(|a, b| (a.0, a.1).cmp(&(b.0, b.1)));
    keyed.into_iter().map(|(_, _, p)| p).collect()
}

fn p_byte(v: &mut Vec<Prop>, id: u8, x: Option<u8>) {
    if let Some(x) = x {
        v.push(Prop {
            id,
            val: PVal::Byte(x),
        })
    }
}
fn p_flag(v: &mut Vec<Prop>, id: u8, x: Option<bool>) {
    p_byte(v, id, x.map(|b| b as u8))
}
fn p_u16(v: &mut Vec<Prop>, id: u8, x: Option<u16>) {
    if let Some(x) = x {
        v.push(Prop {
            id,
            val: PVal::U16(x),
        })
    }
}
fn p_u32(v: &mut Vec<Prop>, id: u8, x: Option<u32>) {
    if let Some(x) = x {
        v.push(Prop {
            id,
            val: PVal::U32(x),
        })
    }
}
fn p_str(v: &mut Vec<Prop>, id: u8, x: &Option<String>) {
    if let Some(x) = x {
        v.push(Prop {
            id,
            val: PVal::Str(x.clone()),
        })
    }
}
fn p_bin(v: &mut Vec<Prop>, id: u8, x: &Option<Vec<u8>>) {
    if let Some(x) = x {
        v.push(Prop {
            id,
            val: PVal::Bin(x.clone()),
        })
    }
}
fn p_user(v: &mut Vec<Prop>, x: &UserProps) {
    for (k, val) in x {
        v.push(Prop {
            id: 38,
            val: PVal::Pair(k.clone(), val.clone()),
        })
    }
}

fn finish(first: u8, body: Vec<u8>) -> Vec<u8> {
    let mut out = vec![first];
    put_varint(&mut out, body.len() as u32);
    out.extend_from_slice(&body);
    out
}

fn encode_ack(first: u8, a: &Ack, form: &Form) -> Vec<u8> {
    let mut body = Vec::new();
    put_u16(&mut body, a.pid);
    let mut props = Vec::new();
    p_str(&mut props, 31, &a.reason_string);
    p_user(&mut props, &a.user_props);
    let noprops = props.is_empty();
    if form.short && noprops && a.reason == 0 {
        return finish(first, body);
    }
    body.push(a.reason);
    if form.short && noprops {
        return finish(first, body);
    }
    body.extend(encode_props(&reorder(props, &form.order)));
    finish(first, body)
}

pub fn encode(p: &Packet, form: &Form) -> Vec<u8> {
    match p {
        Packet::Connect(c) => {
            let mut body = Vec::new();
            put_str(&mut body, "MQTT");
            body.push(5);
            let mut flags = 0u8;
            if c.clean_start {
                flags |= 0x02;
            }
            if let Some(w) = &c.will {
                flags |= 0x04 | (w.qos << 3) | ((w.retain as u8) << 5);
            }
            if c.password.is_some() {
                flags |= 0x40;
            }
            if c.username.is_some() {
                flags |= 0x80;
            }
            body.push(flags);
            put_u16(&mut body, c.keep_alive);
            let mut props = Vec::new();
            p_u32(&mut props, 17, c.session_expiry);
            p_u16(&mut props, 33, c.receive_maximum);
            p_u32(&mut props, 39, c.maximum_packet_size);
            p_u16(&mut props, 34, c.topic_alias_maximum);
            p_flag(&mut props, 25, c.request_response_information);
            p_flag(&mut props, 23, c.request_problem_information);
            p_str(&mut props, 21, &c.auth_method);
            p_bin(&mut props, 22, &c.auth_data);
            p_user(&mut props, &c.user_props);
            body.extend(encode_props(&reorder(props, &form.order)));
            put_str(&mut body, &c.client_id);
            if let Some(w) = &c.will {
                let mut wp = Vec::new();
                p_u32(&mut wp, 24, w.delay_interval);
                p_flag(&mut wp, 1, w.payload_format);
                p_u32(&mut wp, 2, w.message_expiry);
                p_str(&mut wp, 3, &w.content_type);
                p_str(&mut wp, 8, &w.response_topic);
                p_bin(&mut wp, 9, &w.correlation_data);
                p_user(&mut wp, &w.user_props);
                body.extend(encode_props(&reorder(wp, &form.order)));
                put_str(&mut body, &w.topic);
                put_bin(&mut body, &w.payload);
            }
            if let Some(u) = &c.username {
                put_str(&mut body, u);
            }
            if let Some(pw) = &c.password {
                put_bin(&mut body, pw);
            }
            finish(0x10, body)
        }
        Packet::Connack(c) => {
            let mut body = vec![c.session_present as u8, c.reason];
            let mut props = Vec::new();
            p_u32(&mut props, 17, c.session_expiry);
            p_u16(&mut props, 33, c.receive_maximum);
            p_byte(&mut props, 36, c.maximum_qos);
            p_flag(&mut props, 37, c.retain_available);
            p_u32(&mut props, 39, c.maximum_packet_size);
            p_str(&mut props, 18, &c.assigned_client_id);
            p_u16(&mut props, 34, c.topic_alias_maximum);
            p_str(&mut props, 31, &c.reason_string);
            p_user(&mut props, &c.user_props);
            p_flag(&mut props, 40, c.wildcard_available);
            p_flag(&mut props, 41, c.sub_ids_available);
            p_flag(&mut props, 42, c.shared_available);
            p_u16(&mut props, 19, c.server_keep_alive);
            p_str(&mut props, 26, &c.response_information);
            p_str(&mut props, 28, &c.server_reference);
            p_str(&mut props, 21, &c.auth_method);
            p_bin(&mut props, 22, &c.auth_data);
            body.extend(encode_props(&reorder(props, &form.order)));
            finish(0x20, body)
        }
        Packet::Publish(p) => {
            let first = 0x30 | ((p.dup as u8) << 3) | (p.qos << 1) | (p.retain as u8);
            let mut body = Vec::new();
            put_str(&mut body, &p.topic);
            if p.qos > 0 {
                put_u16(&mut body, p.pid.expect("QoS>0 PUBLISH needs a packet identifier"));
            }
            let mut props = Vec::new();
            p_flag(&mut props, 1, p.payload_format);
            p_u32(&mut props, 2, p.message_expiry);
            p_u16(&mut props, 35, p.topic_alias);
            p_str(&mut props, 8, &p.response_topic);
            p_bin(&mut props, 9, &p.correlation_data);
            p_user(&mut props, &p.user_props);
            for id in &p.subscription_ids {
                props.push(Prop {
                    id: 11,
                    val: PVal::VarInt(*id),
                });
            }
            p_str(&mut props, 3, &p.content_type);
            body.extend(encode_props(&reorder(props, &form.order)));
            body.extend_from_slice(&p.payload);
            finish(first, body)
        }
        Packet::Puback(a) => encode_ack(0x40, a, form),
        Packet::Pubrec(a) => encode_ack(0x50, a, form),
        Packet::Pubrel(a) => encode_ack(0x62, a, form),
        Packet::Pubcomp(a) => encode_ack(0x70, a, form),
        Packet::Subscribe(s) => {
            let mut body = Vec::new();
            put_u16(&mut body, s.pid);
            let mut props = Vec::new();
            if let Some(id) = s.sub_id {
                props.push(Prop {
                    id: 11,
                    val: PVal::VarInt(id),
                });
            }
            p_user(&mut props, &s.user_props);
            body.extend(encode_props(&reorder(props, &form.order)));
            for (f, o) in &s.filters {
                put_str(&mut body, f);
                body.push(
                    o.qos
                        | ((o.no_local as u8) << 2)
                        | ((o.retain_as_published as u8) << 3)
                        | (o.retain_handling << 4),
                );
            }
            finish(0x82, body)
        }
        Packet::Unsubscribe(s) => {
            let mut body = Vec::new();
            put_u16(&mut body, s.pid);
            let mut props = Vec::new();
            p_user(&mut props, &s.user_props);
            body.extend(encode_props(&reorder(props, &form.order)));
            for f in &s.filters {
                put_str(&mut body, f);
            }
            finish(0xa2, body)
        }
        Packet::Suback(s) | Packet::Unsuback(s) => {
            let first = if matches!(p, Packet::Suback(_)) {
                0x90
            } else {
                0xb0
            };
            let mut body = Vec::new();
            put_u16(&mut body, s.pid);
            let mut props = Vec::new();
            p_str(&mut props, 31, &s.reason_string);
            p_user(&mut props, &s.user_props);
            body.extend(encode_props(&reorder(props, &form.order)));
            body.extend_from_slice(&s.reasons);
            finish(first, body)
        }
        Packet::Pingreq => vec![0xc0, 0],
        Packet::Pingresp => vec![0xd0, 0],
        Packet::Disconnect(d) => {
            let mut props = Vec::new();
            p_u32(&mut props, 17, d.session_expiry);
            p_str(&mut props, 31, &d.reason_string);
            p_user(&mut props, &d.user_props);
            p_str(&mut props, 28, &d.server_reference);
            let noprops = props.is_empty();
            if form.short && noprops && d.reason == 0 {
                return vec![0xe0, 0];
            }
            let mut body = vec![d.reason];
            if form.short && noprops {
                return finish(0xe0, body);
            }
            body.extend(encode_props(&reorder(props, &form.order)));
            finish(0xe0, body)
        }
        Packet::Auth(a) => {
            let mut props = Vec::new();
            p_str(&mut props, 21, &a.method);
            p_bin(&mut props, 22, &a.data);
            p_str(&mut props, 31, &a.reason_string);
            p_user(&mut props, &a.user_props);
            // without properties there is no Authentication Method, which only the
            // remaining-length-0 form (reason 0) may omit
            if props.is_empty() && a.reason == 0 {
                return vec![0xf0, 0];
            }
            let mut body = vec![a.reason];
            body.extend(encode_props(&reorder(props, &form.order)));
            finish(0xf0, body)
        }
    }
}

// ------------------------------------------------------------------------------------
// strict decoder

/// Splits the first packet off `bytes`: returns (first byte, body, total length used).
pub fn split_frame(bytes: &[u8]) -> Result<(u8, &[u8], usize), Malformed> {
    if bytes.is_empty() {
        return bad("empty input");
    }
    let mut rd = Rd::new(&bytes[1..]);
    let rl = rd.varint()? as usize;
    let hdr = 1 + rd.pos;
    if bytes.len() < hdr + rl {
        return bad(format!(
            "remaining length {rl} exceeds the {} bytes that follow",
            bytes.len() - hdr
        ));
    }
    Ok((bytes[0], &bytes[hdr..hdr + rl], hdr + rl))
}

/// Reference framing of a byte stream into whole packets; the second component is the
/// number of trailing bytes that do not form a whole packet.
pub fn frames(mut bytes: &[u8]) -> (Vec<Vec<u8>>, usize) {
    let mut out = Vec::new();
    while !bytes.is_empty() {
        match split_frame(bytes) {
            Ok((_, _, used)) => {
                out.push(bytes[..used].to_vec());
                bytes = &bytes[used..];
            }
            Err(_) => break,
        }
    }
    (out, bytes.len())
}

fn reason_ok(table: &[u8], r: u8, what: &str) -> Result<u8, Malformed> {
    if table.contains(&r) {
        Ok(r)
    } else {
        bad(format!("reason code 0x{r:02x} is not defined for {what}"))
    }
}

fn decode_ack(body: &[u8], table: &[u8], what: &str) -> Result<Ack, Malformed> {
    let mut rd = Rd::new(body);
    let pid = rd.u16()?;
    if pid == 0 {
        return bad("packet identifier 0");
    }
    let mut a = Ack {
        pid,
        ..Default::default()
    };
    if rd.left() == 0 {
        return Ok(a);
    }
    a.reason = reason_ok(table, rd.u8()?, what)?;
    if rd.left() == 0 {
        return Ok(a);
    }
    let props = PropBag(decode_props(&mut rd, &[31, 38], &[38])?);
    if rd.left() != 0 {
        return bad("bytes after the properties");
    }
    a.reason_string = props.string(31);
    a.user_props = props.user();
    Ok(a)
}

/// Strictly decodes exactly one packet; `bytes` must contain nothing else.
pub fn decode_one(bytes: &[u8], dir: Dir) -> Result<Packet, Malformed> {
    let (first, body, used) = split_frame(bytes)?;
    if used != bytes.len() {
        return bad(format!("{} bytes left over after the packet", bytes.len() - used));
    }
    decode_body(first, body, dir)
}

/// Strictly decodes a concatenation of packets.
pub fn decode_all(mut bytes: &[u8], dir: Dir) -> Result<Vec<Packet>, Malformed> {
    let mut out = Vec::new();
    let mut idx = 0;
    while !bytes.is_empty() {
        let (first, body, used) =
            split_frame(bytes).map_err(|e| Malformed(format!("packet #{idx}: {}", e.0)))?;
        out.push(
            decode_body(first, body, dir)
                .map_err(|e| Malformed(format!("packet #{idx} ({:02x?}..): {}", first, e.0)))?,
        );
        bytes = &bytes[used..];
        idx += 1;
    }
    Ok(out)
}

fn decode_body(first: u8, body: &[u8], dir: Dir) -> Result<Packet, Malformed> {
    let ty = first >> 4;
    let flags = first & 0x0f;
    let from_client = dir == Dir::FromClient;
    let want_flags = match ty {
        3 => flags,
        6 | 8 | 10 => 0b0010,
        _ => 0,
    };
    if flags != want_flags {
        return bad(format!(
            "reserved fixed-header flags of {} are {:04b}, must be {:04b}",
            TYPE_NAMES[ty as usize], flags, want_flags
        ));
    }
    let client_only = matches!(ty, 1 | 8 | 10 | 12);
    let server_only = matches!(ty, 2 | 9 | 11 | 13);
    if (client_only && !from_client) || (server_only && from_client) || ty == 0 {
        return bad(format!(
            "{} cannot be sent in this direction",
            TYPE_NAMES[ty as usize]
        ));
    }
    let mut rd = Rd::new(body);
    match ty {
        1 => {
            let name = rd.string()?;
            if name != "MQTT" {
                return bad("protocol name is not MQTT");
            }
            if rd.u8()? != 5 {
                return bad("protocol version is not 5");
            }
            let flags = rd.u8()?;
            if flags & 1 != 0 {
                return bad("CONNECT reserved flag bit 0 set");
            }
            let clean_start = flags & 0x02 != 0;
            let will_flag = flags & 0x04 != 0;
            let will_qos = (flags >> 3) & 3;
            let will_retain = flags & 0x20 != 0;
            let has_pw = flags & 0x40 != 0;
            let has_user = flags & 0x80 != 0;
            if will_qos == 3 {
                return bad("will QoS 3");
            }
            if !will_flag && (will_qos != 0 || will_retain) {
                return bad("will QoS/retain set without the will flag");
            }
            let keep_alive = rd.u16()?;
            let props = PropBag(decode_props(
                &mut rd,
                &[17, 33, 39, 34, 25, 23, 38, 21, 22],
                &[38],
            )?);
            if props.bin(22).is_some() && props.string(21).is_none() {
                return bad("authentication data without authentication method");
            }
            let client_id = rd.string()?;
            let will = if will_flag {
                let wp = PropBag(decode_props(&mut rd, &[24, 1, 2, 3, 8, 9, 38], &[38])?);
                let topic = rd.string()?;
                let payload = rd.bin()?;
                Some(Will {
                    qos: will_qos,
                    retain: will_retain,
                    delay_interval: wp.u32(24),
                    payload_format: wp.flag(1),
                    message_expiry: wp.u32(2),
                    content_type: wp.string(3),
                    response_topic: wp.string(8),
                    correlation_data: wp.bin(9),
                    user_props: wp.user(),
                    topic,
                    payload,
                })
            } else {
                None
            };
            let username = if has_user { Some(rd.string()?) } else { None };
            let password = if has_pw { Some(rd.bin()?) } else { None };
            if rd.left() != 0 {
                return bad(format!("{} bytes after the CONNECT payload", rd.left()));
            }
            Ok(Packet::Connect(Connect {
                clean_start,
                keep_alive,
                session_expiry: props.u32(17),
                receive_maximum: props.u16(33),
                maximum_packet_size: props.u32(39),
                topic_alias_maximum: props.u16(34),
                request_response_information: props.flag(25),
                request_problem_information: props.flag(23),
                auth_method: props.string(21),
                auth_data: props.bin(22),
                user_props: props.user(),
                client_id,
                will,
                username,
                password,
            }))
        }
        2 => {
            let ack_flags = rd.u8()?;
            if ack_flags > 1 {
                return bad("CONNACK reserved acknowledge flags set");
            }
            let reason = reason_ok(CONNACK_REASONS, rd.u8()?, "CONNACK")?;
            let props = PropBag(decode_props(
                &mut rd,
                &[17, 33, 36, 37, 39, 18, 34, 31, 38, 40, 41, 42, 19, 26, 28, 21, 22],
                &[38],
            )?);
            if rd.left() != 0 {
                return bad("bytes after the CONNACK properties");
            }
            Ok(Packet::Connack(Connack {
                session_present: ack_flags == 1,
                reason,
                session_expiry: props.u32(17),
                receive_maximum: props.u16(33),
                maximum_qos: props.byte(36),
                retain_available: props.flag(37),
                maximum_packet_size: props.u32(39),
                assigned_client_id: props.string(18),
                topic_alias_maximum: props.u16(34),
                reason_string: props.string(31),
                user_props: props.user(),
                wildcard_available: props.flag(40),
                sub_ids_available: props.flag(41),
                shared_available: props.flag(42),
                server_keep_alive: props.u16(19),
                response_information: props.string(26),
                server_reference: props.string(28),
                auth_method: props.string(21),
                auth_data: props.bin(22),
            }))
        }
        3 => {
            let dup = flags & 0x08 != 0;
            let qos = (flags >> 1) & 3;
            let retain = flags & 1 != 0;
            if qos == 3 {
                return bad("PUBLISH QoS 3");
            }
            if qos == 0 && dup {
                return bad("DUP set on a QoS 0 PUBLISH");
            }
            let topic = rd.string()?;
            let pid = if qos > 0 {
                let p = rd.u16()?;
                if p == 0 {
                    return bad("packet identifier 0");
                }
                Some(p)
            } else {
                None
            };
            let (allowed, multi): (&[u8], &[u8]) = if from_client {
                (&[1, 2, 35, 8, 9, 38, 3], &[38])
            } else {
                (&[1, 2, 35, 8, 9, 38, 11, 3], &[38, 11])
            };
            let props = PropBag(decode_props(&mut rd, allowed, multi)?);
            let payload = rd.rest().to_vec();
            if topic.is_empty() && props.u16(35).is_none() {
                return bad("empty topic name without a topic alias");
            }
            if topic.contains('#') || topic.contains('+') {
                return bad("wildcard character in a topic name");
            }
            Ok(Packet::Publish(Publish {
                dup,
                qos,
                retain,
                topic,
                pid,
                payload_format: props.flag(1),
                message_expiry: props.u32(2),
                topic_alias: props.u16(35),
                response_topic: props.string(8),
                correlation_data: props.bin(9),
                user_props: props.user(),
                subscription_ids: props.varints(11),
                content_type: props.string(3),
                payload,
            }))
        }
        4 => Ok(Packet::Puback(decode_ack(body, PUBACK_REASONS, "PUBACK")?)),
        5 => Ok(Packet::Pubrec(decode_ack(body, PUBREC_REASONS, "PUBREC")?)),
        6 => Ok(Packet::Pubrel(decode_ack(body, PUBREL_REASONS, "PUBREL")?)),
        7 => Ok(Packet::Pubcomp(decode_ack(body, PUBCOMP_REASONS, "PUBCOMP")?)),
        8 => {
            let pid = rd.u16()?;
            if pid == 0 {
                return bad("packet identifier 0");
            }
            let props = PropBag(decode_props(&mut rd, &[11, 38], &[38])?);
            let mut filters = Vec::new();
            while rd.left() > 0 {
                let f = rd.string()?;
                if f.is_empty() {
                    return bad("empty topic filter");
                }
                let o = rd.u8()?;
                if o & 0xc0 != 0 {
                    return bad("reserved subscription option bits set");
                }
                let qos = o & 3;
                let rh = (o >> 4) & 3;
                if qos == 3 {
                    return bad("subscription maximum QoS 3");
                }
                if rh == 3 {
                    return bad("retain handling 3");
                }
                filters.push((
                    f,
                    SubOpts {
                        qos,
                        no_local: o & 0x04 != 0,
                        retain_as_published: o & 0x08 != 0,
                        retain_handling: rh,
                    },
                ));
            }
            if filters.is_empty() {
                return bad("SUBSCRIBE without topic filter");
            }
            Ok(Packet::Subscribe(Subscribe {
                pid,
                sub_id: props.varints(11).first().copied(),
                user_props: props.user(),
                filters,
            }))
        }
        9 | 11 => {
            let pid = rd.u16()?;
            if pid == 0 {
                return bad("packet identifier 0");
            }
            let props = PropBag(decode_props(&mut rd, &[31, 38], &[38])?);
            let table = if ty == 9 {
                SUBACK_REASONS
            } else {
                UNSUBACK_REASONS
            };
            let mut reasons = Vec::new();
            for b in rd.rest() {
                reasons.push(reason_ok(table, *b, TYPE_NAMES[ty as usize])?);
            }
            if reasons.is_empty() {
                return bad("acknowledgement without reason codes");
            }
            let a = AckList {
                pid,
                reason_string: props.string(31),
                user_props: props.user(),
                reasons,
            };
            Ok(if ty == 9 {
                Packet::Suback(a)
            } else {
                Packet::Unsuback(a)
            })
        }
        10 => {
            let pid = rd.u16()?;
            if pid == 0 {
                return bad("packet identifier 0");
            }
            let props = PropBag(decode_props(&mut rd, &[38], &[38])?);
            let mut filters = Vec::new();
            while rd.left() > 0 {
                let f = rd.string()?;
                if f.is_empty() {
                    return bad("empty topic filter");
                }
                filters.push(f);
            }
            if filters.is_empty() {
                return bad("UNSUBSCRIBE without topic filter");
            }
            Ok(Packet::Unsubscribe(Unsubscribe {
                pid,
                user_props: props.user(),
                filters,
            }))
        }
        12 | 13 => {
            if !body.is_empty() {
                return bad("PINGREQ/PINGRESP with a body");
            }
            Ok(if ty == 12 {
                Packet::Pingreq
            } else {
                Packet::Pingresp
            })
        }
        14 => {
            let mut d = Disconnect::default();
            if rd.left() == 0 {
                return Ok(Packet::Disconnect(d));
            }
            d.reason = reason_ok(DISCONNECT_REASONS, rd.u8()?, "DISCONNECT")?;
            if !from_client && d.reason == 0x04 {
                return bad("DISCONNECT 0x04 sent by a server");
            }
            if rd.left() == 0 {
                return Ok(Packet::Disconnect(d));
            }
            let allowed: &[u8] = if from_client {
                &[17, 31, 38]
            } else {
                &[31, 38, 28]
            };
            let props = PropBag(decode_props(&mut rd, allowed, &[38])?);
            if rd.left() != 0 {
                return bad("bytes after the DISCONNECT properties");
            }
            d.session_expiry = props.u32(17);
            d.reason_string = props.string(31);
            d.server_reference = props.string(28);
            d.user_props = props.user();
            Ok(Packet::Disconnect(d))
        }
        15 => {
            let mut a = Auth::default();
            if rd.left() == 0 {
                return Ok(Packet::Auth(a));
            }
            a.reason = reason_ok(AUTH_REASONS, rd.u8()?, "AUTH")?;
            let props = PropBag(decode_props(&mut rd, &[21, 22, 31, 38], &[38])?);
            if rd.left() != 0 {
                return bad("bytes after the AUTH properties");
            }
            a.method = props.string(21);
            a.data = props.bin(22);
            a.reason_string = props.string(31);
            a.user_props = props.user();
            if a.method.is_none() {
                return bad("AUTH without authentication method");
            }
            Ok(Packet::Auth(a))
        }
        _ => bad("reserved packet type 0"),
    }
}

// ------------------------------------------------------------------------------------
// self-test against literal vectors (independent of the generators)

pub fn self_test() -> Result<(), String> {
    // vectors taken from the MQTT 5 text / the repository's own unit tests
    let cases: Vec<(Dir, Vec<u8>, Packet)> = vec![
        (Dir::FromClient, vec![0xc0, 0], Packet::Pingreq),
        (Dir::FromServer, vec![0xd0, 0], Packet::Pingresp),
        (
            Dir::FromServer,
            vec![0x40, 2, 0x45, 0x73],
            Packet::Puback(Ack {
                pid: 0x4573,
                ..Default::default()
            }),
        ),
        (
            Dir::FromServer,
            vec![0x40, 3, 0x45, 0x73, 0x10],
            Packet::Puback(Ack {
                pid: 0x4573,
                reason: 0x10,
                ..Default::default()
            }),
        ),
        (
            Dir::FromClient,
            vec![0x62, 2, 0, 1],
            Packet::Pubrel(Ack {
                pid: 1,
                ..Default::default()
            }),
        ),
        (
            Dir::FromServer,
            vec![0x20, 3, 0, 0, 0],
            Packet::Connack(Connack::default()),
        ),
        (
            Dir::FromServer,
            vec![0x20, 6, 1, 0x87, 3, 33, 0, 10],
            Packet::Connack(Connack {
                session_present: true,
                reason: 0x87,
                receive_maximum: Some(10),
                ..Default::default()
            }),
        ),
        (
            Dir::FromClient,
            vec![
                0x10, 13, 0, 4, b'M', b'Q', b'T', b'T', 5, 2, 0, 60, 0, 0, 0,
            ],
            Packet::Connect(Connect {
                clean_start: true,
                keep_alive: 60,
                ..Default::default()
            }),
        ),
        (
            Dir::FromClient,
            vec![0x82, 9, 0, 7, 2, 11, 5, 0, 1, b'a', 0x2e],
            Packet::Subscribe(Subscribe {
                pid: 7,
                sub_id: Some(5),
                user_props: vec![],
                filters: vec![(
                    "a".into(),
                    SubOpts {
                        qos: 2,
                        no_local: true,
                        retain_as_published: true,
                        retain_handling: 2,
                    },
                )],
            }),
        ),
        (
            Dir::FromServer,
            vec![0x33, 8, 0, 1, b't', 0, 9, 0, b'h', b'i'],
            Packet::Publish(Publish {
                qos: 1,
                retain: true,
                topic: "t".into(),
                pid: Some(9),
                payload: b"hi".to_vec(),
                ..Default::default()
            }),
        ),
        (Dir::FromServer, vec![0xe0, 0], Packet::Disconnect(Disconnect::default())),
        (
            Dir::FromServer,
            vec![0xe0, 1, 0x8b],
            Packet::Disconnect(Disconnect {
                reason: 0x8b,
                ..Default::default()
            }),
        ),
        (
            Dir::FromClient,
            vec![0xf0, 9, 0x18, 7, 21, 0, 1, b'm', 22, 0, 0],
            Packet::Auth(Auth {
                reason: 0x18,
                method: Some("m".into()),
                data: Some(vec![]),
                ..Default::default()
            }),
        ),
        (
            Dir::FromServer,
            vec![0x90, 5, 0, 3, 0, 1, 0x80],
            Packet::Suback(AckList {
                pid: 3,
                reasons: vec![1, 0x80],
                ..Default::default()
            }),
        ),
    ];
    for (dir, bytes, pkt) in &cases {
        let got = decode_one(bytes, *dir).map_err(|e| format!("{bytes:02x?}: {}", e.0))?;
        if &got != pkt {
            return Err(format!("decode {bytes:02x?}: got {got:?}, want {pkt:?}"));
        }
        // encoder agrees when using the same form
        let short = encode(pkt, &Form::short());
        let canon = encode(pkt, &Form::canonical());
        if &short != bytes && &canon != bytes {
            return Err(format!(
                "encode {pkt:?}: got {short:02x?} / {canon:02x?}, want {bytes:02x?}"
            ));
        }
        for enc in [short, canon] {
            let back = decode_one(&enc, *dir).map_err(|e| format!("re-decode: {}", e.0))?;
            if &back != pkt {
                return Err(format!("round trip of {pkt:?} gave {back:?}"));
            }
        }
    }
    // must-reject vectors
    let rejects: Vec<(Dir, Vec<u8>)> = vec![
        (Dir::FromClient, vec![0x82, 9, 0, 7, 2, 11, 5, 0, 1, b'a', 0x48]), // reserved option bits
        (Dir::FromClient, vec![0x80, 6, 0, 7, 0, 0, 1, b'a']),              // wrong flags + no opts
        (Dir::FromClient, vec![0x10, 12, 0, 4, b'M', b'Q', b'T', b'T', 5, 2, 0, 60, 0, 0, 0]), // RL short
        (Dir::FromClient, vec![0x10, 16, 0, 4, b'M', b'Q', b'T', b'T', 5, 2, 0, 60, 0, 33, 0, 10, 0, 0]), // prop len 0 then stray
        (Dir::FromClient, vec![0xf0, 8, 0x18, 21, 0, 1, b'm', 22, 0, 0]),   // no property length
        (Dir::FromClient, vec![0x30, 0x80, 0x00]),                         // non-minimal varint
        (Dir::FromClient, vec![0x32, 5, 0, 1, b't', 0, 0]),                // pid 0
        (Dir::FromClient, vec![0x38, 4, 0, 1, b't', 0]),                   // dup with qos0
        (Dir::FromClient, vec![0x40, 1, 5]),                               // short ack
    ];
    for (dir, bytes) in &rejects {
        if let Ok(p) = decode_one(bytes, *dir) {
            return Err(format!("strict decoder accepted {bytes:02x?} as {p:?}"));
        }
    }
    let (fr, rest) = frames(&[0xd0, 0, 0x40, 2, 0, 1, 0x30]);
    if fr.len() != 2 || rest != 1 {
        return Err("frames() self-test".into());
    }
    Ok(())
}
