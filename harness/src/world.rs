//! The world: one poster `Context` under test wired to the mock transport, the tasks
//! that use it, and a tap on everything it writes. The script (a property module)
//! decides every poll.

use crate::api::*;
use crate::exec::*;
use crate::mockio::*;
use crate::refcodec as rc;
use futures::stream::Stream;
use poster::error::MqttError;
use poster::{Context, ContextHandle, SubscribeRsp};
use std::pin::Pin;
use std::task::Poll;

pub type Ctx = Context<MockReader, MockWriter>;

#[derive(Clone, Debug, PartialEq, Eq, serde::Serialize, serde::Deserialize)]
pub enum RunRes {
    Ok,
    Err(ErrSum),
}

/// Where a cancelled run() leaves its Context (see `RunFut`).
pub type Rescue = std::rc::Rc<std::cell::RefCell<(bool, Option<Box<Ctx>>)>>;

/// `run()` on a boxed Context that the future owns. Dropping the future drops the inner `run()`
/// future first and then the Context - exactly what dropping `async move { c.run().await }` does -
/// unless a rescue was requested: then the Context is handed back, which is what a caller gets who
/// drops `ctx.run()` (e.g. inside a `select!`) and keeps `ctx`.
pub struct RunFut {
    inner: Option<Pin<Box<dyn std::future::Future<Output = Result<(), MqttError>>>>>,
    ctx: Option<Box<Ctx>>,
    rescue: Rescue,
}

impl RunFut {
    fn new(c: Ctx, rescue: Rescue) -> Self {
        let mut b = Box::new(c);
        let p: *mut Ctx = &mut *b;
        // the box gives the Context a stable address; `inner` is dropped before the box in every path
        let inner = Box::pin(async move { unsafe { &mut *p }.run().await });
        Self { inner: Some(inner), ctx: Some(b), rescue }
    }
}

impl std::future::Future for RunFut {
    type Output = (Ctx, Result<(), MqttError>);
    fn poll(self: Pin<&mut Self>, cx: &mut std::task::Context<'_>) -> Poll<Self::Output> {
        let this = self.get_mut();
        match this.inner.as_mut().expect("polled after completion").as_mut().poll(cx) {
            Poll::Pending => Poll::Pending,
            Poll::Ready(r) => {
                this.inner = None;
                let c = *this.ctx.take().expect("context present");
                Poll::Ready((c, r))
            }
        }
    }
}

impl Drop for RunFut {
    fn drop(&mut self) {
        self.inner = None;
        if let Some(c) = self.ctx.take() {
            let mut r = self.rescue.borrow_mut();
            if r.0 {
                r.1 = Some(c);
            }
        }
    }
}

pub enum CtxSlot {
    Idle(Ctx),
    Connecting(Task<(Ctx, ConnOut)>),
    Running(Task<(Ctx, Result<(), MqttError>)>),
    Returned(Ctx),
    Panicked,
    Dropped,
    Taken,
}

pub struct OpSlot {
    pub spec: OpSpec,
    pub handle: usize,
    pub task: Task<OpOut>,
    pub res: Option<OpRes>,
    pub sub_rsp: Option<SubscribeRsp>,
    pub ready_count: usize,
    pub dropped: bool,
    pub first_polled_step: Option<usize>,
    pub done_step: Option<usize>,
    /// number of bytes the transport had accepted when the operation completed
    pub done_wire_len: Option<usize>,
}

impl OpSlot {
    pub fn pending(&self) -> bool {
        self.task.is_running()
    }
}

pub struct StreamSlot {
    pub op: usize,
    pub stream: Option<Pin<Box<dyn Stream<Item = poster::PublishData>>>>,
    pub cell: PollCell,
    pub items: Vec<MsgView>,
    pub ended: bool,
    pub dropped: bool,
}

#[derive(Clone, Debug)]
pub struct WirePkt {
    pub start: usize,
    pub end: usize,
    pub first: u8,
    pub decoded: Result<rc::Packet, rc::Malformed>,
}

#[derive(Clone, Debug, PartialEq, Eq)]
pub enum StreamPoll {
    Item,
    End,
    Pending,
    Inert,
}

pub struct World {
    pub reader: MockReader,
    pub writer: MockWriter,
    pub ctx: CtxSlot,
    pub handles: Vec<Option<ContextHandle>>,
    pub ops: Vec<OpSlot>,
    pub streams: Vec<StreamSlot>,
    pub conn_results: Vec<ConnRes>,
    pub run_result: Option<RunRes>,
    /// (who, message) for every panic caught while polling or dropping library objects
    pub panics: Vec<(String, String)>,
    pub step: usize,
    pub total_polls: usize,
    pub poll_budget: usize,
    pub budget_exhausted: bool,
    pub pkts: Vec<WirePkt>,
    parsed_upto: usize,
    /// indices of operations whose future is still running
    active_ops: Vec<usize>,
    rescue: Rescue,
    /// per handle slot: a long-lived handle that operations started on the slot use one after the
    /// other (when it is busy, the next operation gets a fresh clone, as a caller would do), and
    /// its busy flag. Declared after `ops`: the operations are dropped first.
    primary: Vec<Option<Box<ContextHandle>>>,
    busy: Vec<std::rc::Rc<std::cell::Cell<bool>>>,
}

impl World {
    pub fn new() -> Self {
        let (mut ctx, handle) = Ctx::new();
        let reader = MockReader::new();
        let writer = MockWriter::new();
        ctx.set_up((reader.clone(), writer.clone()));
        Self {
            reader,
            writer,
            ctx: CtxSlot::Idle(ctx),
            handles: vec![Some(handle)],
            ops: vec![],
            streams: vec![],
            conn_results: vec![],
            run_result: None,
            panics: vec![],
            step: 0,
            total_polls: 0,
            poll_budget: 300_000,
            budget_exhausted: false,
            pkts: vec![],
            parsed_upto: 0,
            active_ops: vec![],
            rescue: Default::default(),
            primary: vec![],
            busy: vec![],
        }
    }

    pub fn tick(&mut self) {
        self.reap_handles();
        self.step += 1;
        self.writer.set_step(self.step);
    }

    // ---------------------------------------------------------------- context side

    /// Replace the transport (second connection of the same Context).
    pub fn set_up_again(&mut self) -> bool {
        let slot = std::mem::replace(&mut self.ctx, CtxSlot::Taken);
        match slot {
            CtxSlot::Idle(mut c) | CtxSlot::Returned(mut c) => {
                self.reader = MockReader::new();
                self.writer = MockWriter::new();
                self.pkts.clear();
                self.parsed_upto = 0;
                c.set_up((self.reader.clone(), self.writer.clone()));
                self.ctx = CtxSlot::Idle(c);
                true
            }
            other => {
                self.ctx = other;
                false
            }
        }
    }

    /// hook: move the subscription identifier counter shared by all handle clones
    pub fn set_next_sub_id(&mut self, v: u32) -> bool {
        match self.handles.iter().flatten().next() {
            Some(h) => {
                h.verif_set_next_subscription_identifier(v);
                true
            }
            None => false,
        }
    }

    pub fn mark_disconnected(&mut self, secs_ago: u64) -> bool {
        match &mut self.ctx {
            CtxSlot::Idle(c) | CtxSlot::Returned(c) => {
                c.verif_mark_disconnected(secs_ago);
                true
            }
            _ => false,
        }
    }

    pub fn start_connect(&mut self, spec: ConnectSpec) -> bool {
        let slot = std::mem::replace(&mut self.ctx, CtxSlot::Taken);
        match slot {
            CtxSlot::Idle(mut c) | CtxSlot::Returned(mut c) => {
                self.ctx = CtxSlot::Connecting(Task::new(async move {
                    let r = c.connect(apply_connect(&spec)).await;
                    (c, r)
                }));
                true
            }
            other => {
                self.ctx = other;
                false
            }
        }
    }

    pub fn start_authorize(&mut self, spec: AuthSpec) -> bool {
        let slot = std::mem::replace(&mut self.ctx, CtxSlot::Taken);
        match slot {
            CtxSlot::Idle(mut c) | CtxSlot::Returned(mut c) => {
                self.ctx = CtxSlot::Connecting(Task::new(async move {
                    let r = c.authorize(apply_auth(&spec)).await;
                    (c, r)
                }));
                true
            }
            other => {
                self.ctx = other;
                false
            }
        }
    }

    pub fn start_run(&mut self) -> bool {
        let slot = std::mem::replace(&mut self.ctx, CtxSlot::Taken);
        match slot {
            CtxSlot::Idle(mut c) | CtxSlot::Returned(mut c) => {
                self.run_result = None;
                let _ = &mut c;
                self.rescue.borrow_mut().0 = false;
                self.ctx = CtxSlot::Running(Task::new(RunFut::new(c, self.rescue.clone())));
                true
            }
            other => {
                self.ctx = other;
                false
            }
        }
    }

    pub fn ctx_woken(&self) -> bool {
        match &self.ctx {
            CtxSlot::Connecting(t) => t.woken(),
            CtxSlot::Running(t) => t.woken(),
            _ => false,
        }
    }

    pub fn ctx_active(&self) -> bool {
        matches!(self.ctx, CtxSlot::Connecting(_) | CtxSlot::Running(_))
    }

    pub fn ctx_idle_or_returned(&self) -> bool {
        matches!(self.ctx, CtxSlot::Idle(_) | CtxSlot::Returned(_))
    }

    pub fn ctx_running(&self) -> bool {
        matches!(self.ctx, CtxSlot::Running(_))
    }

    pub fn ctx_polls(&self) -> usize {
        match &self.ctx {
            CtxSlot::Connecting(t) => t.polls,
            CtxSlot::Running(t) => t.polls,
            _ => 0,
        }
    }

    /// Poll the context task once (woken or not). Returns true when it made the task finish.
    pub fn poll_ctx(&mut self) -> bool {
        self.total_polls += 1;
        let mut finished = false;
        let slot = std::mem::replace(&mut self.ctx, CtxSlot::Taken);
        self.ctx = match slot {
            CtxSlot::Connecting(mut t) => match t.poll() {
                PollOut::Pending | PollOut::Inert => CtxSlot::Connecting(t),
                PollOut::Ready((c, r)) => {
                    finished = true;
                    self.conn_results.push(conn_res(&r));
                    if let Err(m) = guarded(move || drop(r)) {
                        self.panics.push(("drop(connect result)".into(), m));
                    }
                    CtxSlot::Idle(c)
                }
                PollOut::Panicked(m) => {
                    finished = true;
                    self.panics.push(("connect/authorize".into(), m));
                    CtxSlot::Panicked
                }
            },
            CtxSlot::Running(mut t) => match t.poll() {
                PollOut::Pending | PollOut::Inert => CtxSlot::Running(t),
                PollOut::Ready((c, r)) => {
                    finished = true;
                    self.run_result = Some(match &r {
                        Ok(()) => RunRes::Ok,
                        Err(e) => RunRes::Err(err_sum(e)),
                    });
                    CtxSlot::Returned(c)
                }
                PollOut::Panicked(m) => {
                    finished = true;
                    self.panics.push(("run".into(), m));
                    CtxSlot::Panicked
                }
            },
            other => other,
        };
        finished
    }

    /// Drop the `run()` future but keep the Context (what `select! { _ = ctx.run() => .., .. }`
    /// does when another branch wins); `start_run` can then be called again.
    pub fn cancel_run(&mut self) -> bool {
        let slot = std::mem::replace(&mut self.ctx, CtxSlot::Taken);
        match slot {
            CtxSlot::Running(mut t) if t.is_running() => {
                self.rescue.borrow_mut().0 = true;
                if let Err(m) = t.cancel() {
                    self.panics.push(("drop(run future)".into(), m));
                }
                let c = {
                    let mut r = self.rescue.borrow_mut();
                    r.0 = false;
                    r.1.take()
                };
                match c {
                    Some(c) => {
                        self.ctx = CtxSlot::Idle(*c);
                        true
                    }
                    None => {
                        self.ctx = CtxSlot::Dropped;
                        false
                    }
                }
            }
            other => {
                self.ctx = other;
                false
            }
        }
    }

    /// Drop the context, whatever it is doing (cancels a running task).
    pub fn drop_ctx(&mut self) {
        let slot = std::mem::replace(&mut self.ctx, CtxSlot::Dropped);
        let r = match slot {
            CtxSlot::Connecting(mut t) => t.cancel(),
            CtxSlot::Running(mut t) => t.cancel(),
            other => guarded(move || drop(other)),
        };
        if let Err(m) = r {
            self.panics.push(("drop(context)".into(), m));
        }
    }

    // ---------------------------------------------------------------- handle side

    pub fn clone_handle(&mut self, h: usize) -> Option<usize> {
        let c = self.handles.get(h)?.as_ref()?.clone();
        self.handles.push(Some(c));
        Some(self.handles.len() - 1)
    }

    pub fn drop_handle(&mut self, h: usize) {
        if let Some(slot) = self.handles.get_mut(h) {
            let old = slot.take();
            if let Err(m) = guarded(move || drop(old)) {
                self.panics.push(("drop(handle)".into(), m));
            }
        }
        self.reap_handles();
    }

    /// The long-lived handle of a dropped slot goes as soon as no operation is using it (an
    /// operation in flight keeps its handle alive, as a borrow would).
    fn reap_handles(&mut self) {
        for h in 0..self.primary.len() {
            if self.handles.get(h).map(|x| x.is_none()).unwrap_or(true) && !self.busy[h].get() {
                if let Some(old) = self.primary[h].take() {
                    if let Err(m) = guarded(move || drop(old)) {
                        self.panics.push(("drop(handle)".into(), m));
                    }
                }
            }
        }
    }

    pub fn live_handles(&self) -> Vec<usize> {
        (0..self.handles.len())
            .filter(|i| self.handles[*i].is_some())
            .collect()
    }

    /// Creates the operation's future (not polled yet). None if the handle slot is empty.
    pub fn start_op(&mut self, h: usize, spec: OpSpec) -> Option<usize> {
        let handle = self.handles.get(h)?.as_ref()?.clone();
        // the library method is called now, the future it returns is polled when the script says
        let sp = spec.clone();
        while self.primary.len() < self.handles.len() {
            self.primary.push(None);
            self.busy.push(Default::default());
        }
        if self.primary[h].is_none() {
            self.primary[h] = Some(Box::new(handle.clone()));
        }
        let free = !self.busy[h].get();
        let hp: *mut ContextHandle = &mut **self.primary[h].as_mut().unwrap();
        let flag = self.busy[h].clone();
        let task = match guarded(move || if free { unsafe { EagerOp::on(hp, sp, Some(flag)) } } else { EagerOp::new(handle, sp) }) {
            Ok(f) => Task::new(f),
            Err(m) => {
                self.panics.push(("call of the operation method".into(), m));
                Task::new(std::future::pending::<OpOut>())
            }
        };
        self.ops.push(OpSlot {
            spec,
            handle: h,
            task,
            res: None,
            sub_rsp: None,
            ready_count: 0,
            dropped: false,
            first_polled_step: None,
            done_step: None,
            done_wire_len: None,
        });
        self.active_ops.push(self.ops.len() - 1);
        Some(self.ops.len() - 1)
    }

    /// Consume `n` packet identifiers with acknowledged QoS 1 publishes and forget those
    /// operations again (indices restart at 0), so that a scenario starts with the
    /// identifier counter at n+1. Returns false if something unexpected happened.
    pub fn warm_up_identifiers(&mut self, n: u32) -> bool {
        for _ in 0..n {
            let spec = OpSpec::Publish(PublishSpec {
                qos: Some(1),
                topic: Some("w".into()),
                ..Default::default()
            });
            let Some(i) = self.start_op(0, spec) else { return false };
            self.quiesce(false);
            self.sync_wire();
            let pid = match self.pkts.last().map(|p| p.decoded.clone()) {
                Some(Ok(rc::Packet::Publish(p))) => p.pid,
                _ => None,
            };
            let Some(pid) = pid else { return false };
            self.reader.feed(rc::encode(
                &rc::Packet::Puback(rc::Ack { pid, ..Default::default() }),
                &rc::Form::short(),
            ));
            self.quiesce(false);
            if self.ops[i].res != Some(OpRes::Ok) {
                return false;
            }
        }
        self.ops.clear();
        self.active_ops.clear();
        true
    }

    /// Like `warm_up_identifiers`, but in the middle of a history: `n` acknowledged QoS 1 publishes
    /// that leave no trace in `ops` (the indices of the history's own operations stay valid).
    pub fn advance_identifiers(&mut self, n: u32) -> bool {
        for _ in 0..n {
            let spec = OpSpec::Publish(PublishSpec { qos: Some(1), topic: Some("w".into()), ..Default::default() });
            let Some(i) = self.start_op(0, spec) else { return false };
            self.quiesce(false);
            self.sync_wire();
            let pid = match self.pkts.last().map(|p| p.decoded.clone()) {
                Some(Ok(rc::Packet::Publish(p))) => p.pid,
                _ => None,
            };
            let Some(pid) = pid else { return false };
            self.reader.feed(rc::encode(&rc::Packet::Puback(rc::Ack { pid, ..Default::default() }), &rc::Form::short()));
            self.quiesce(false);
            if self.ops[i].res != Some(OpRes::Ok) || i + 1 != self.ops.len() {
                return false;
            }
            self.ops.pop();
            self.active_ops.retain(|x| *x != i);
        }
        true
    }

    /// Poll one operation future once. Returns true if it completed now.
    pub fn poll_op(&mut self, i: usize) -> bool {
        self.total_polls += 1;
        let step = self.step;
        let op = &mut self.ops[i];
        if op.first_polled_step.is_none() && op.task.is_running() {
            op.first_polled_step = Some(step);
        }
        let polled = op.task.poll();
        let finished = !matches!(polled, PollOut::Pending | PollOut::Inert);
        let r = match polled {
            PollOut::Pending | PollOut::Inert => false,
            PollOut::Ready(out) => {
                op.ready_count += 1;
                op.res = Some(op_res(&out));
                op.done_step = Some(step);
                op.done_wire_len = Some(self.writer.len());
                match out {
                    OpOut::Sub(Ok(rsp)) => op.sub_rsp = Some(rsp),
                    other => {
                        if let Err(m) = guarded(move || drop(other)) {
                            self.panics.push((format!("drop(result of op {i})"), m));
                        }
                    }
                }
                true
            }
            PollOut::Panicked(m) => {
                self.panics.push((format!("op {i} ({})", self.ops[i].spec.kind()), m));
                true
            }
        };
        if finished {
            self.reap_handles();
        }
        r
    }

    pub fn drop_op(&mut self, i: usize) {
        let op = &mut self.ops[i];
        if op.task.is_running() {
            op.dropped = true;
            if let Err(m) = op.task.cancel() {
                self.panics.push((format!("drop(op {i})"), m));
            }
        }
        self.reap_handles();
    }

    pub fn make_stream(&mut self, op: usize) -> Option<usize> {
        let rsp = self.ops[op].sub_rsp.take()?;
        let stream: Pin<Box<dyn Stream<Item = poster::PublishData>>> = Box::pin(rsp.stream());
        self.streams.push(StreamSlot {
            op,
            stream: Some(stream),
            cell: PollCell::new(),
            items: vec![],
            ended: false,
            dropped: false,
        });
        Some(self.streams.len() - 1)
    }

    pub fn stream_woken(&self, s: usize) -> bool {
        let st = &self.streams[s];
        st.stream.is_some() && !st.ended && st.cell.flag.is_set()
    }

    pub fn poll_stream(&mut self, s: usize) -> StreamPoll {
        self.total_polls += 1;
        let st = &mut self.streams[s];
        if st.ended {
            return StreamPoll::Inert;
        }
        let stream = match st.stream.as_mut() {
            Some(x) => x,
            None => return StreamPoll::Inert,
        };
        let r = st
            .cell
            .poll_with(|cx| match stream.as_mut().poll_next(cx) {
                Poll::Ready(Some(item)) => Some(Some(msg_view(&item))),
                Poll::Ready(None) => Some(None),
                Poll::Pending => None,
            });
        match r {
            Ok(Some(Some(v))) => {
                st.items.push(v);
                StreamPoll::Item
            }
            Ok(Some(None)) => {
                st.ended = true;
                StreamPoll::End
            }
            Ok(None) => StreamPoll::Pending,
            Err(m) => {
                st.ended = true;
                self.panics.push((format!("stream {s}"), m));
                StreamPoll::End
            }
        }
    }

    /// Poll a stream until it is Pending or ended; returns the number of items taken.
    pub fn drain_stream(&mut self, s: usize) -> usize {
        let mut n = 0;
        loop {
            match self.poll_stream(s) {
                StreamPoll::Item => n += 1,
                _ => return n,
            }
            if n > 1_000_000 {
                return n;
            }
        }
    }

    pub fn drop_stream(&mut self, s: usize) {
        let st = &mut self.streams[s];
        st.dropped = true;
        let old = st.stream.take();
        if let Err(m) = guarded(move || drop(old)) {
            self.panics.push((format!("drop(stream {s})"), m));
        }
    }

    // ---------------------------------------------------------------- scheduling

    /// Wake-only executor: poll woken tasks (context first, then operations by index,
    /// then — if `streams` — woken streams, drained) until no flag is set.
    pub fn quiesce(&mut self, streams: bool) {
        loop {
            let mut progressed = false;
            if self.ctx_woken() {
                self.poll_ctx();
                progressed = true;
            }
            let mut k = 0;
            while k < self.active_ops.len() {
                let i = self.active_ops[k];
                if self.ops[i].task.woken() {
                    self.poll_op(i);
                    progressed = true;
                }
                if self.ops[i].task.is_running() {
                    k += 1;
                } else {
                    self.active_ops.remove(k);
                }
            }
            if streams {
                for s in 0..self.streams.len() {
                    if self.stream_woken(s) {
                        self.drain_stream(s);
                        progressed = true;
                    }
                }
            }
            if !progressed {
                return;
            }
            if self.total_polls > self.poll_budget {
                self.budget_exhausted = true;
                return;
            }
        }
    }

    /// Poll *every* live task once, woken or not (the "sweep" discipline). Returns a
    /// fingerprint of the observable state before/after so callers can check for change.
    pub fn sweep(&mut self, streams: bool) {
        if self.ctx_active() {
            self.poll_ctx();
        }
        for i in 0..self.ops.len() {
            if self.ops[i].task.is_running() {
                self.poll_op(i);
            }
        }
        if streams {
            for s in 0..self.streams.len() {
                if self.streams[s].stream.is_some() && !self.streams[s].ended {
                    self.poll_stream(s);
                }
            }
        }
    }

    pub fn any_woken(&self) -> bool {
        self.ctx_woken()
            || self.active_ops.iter().any(|i| self.ops[*i].task.woken())
            || (0..self.streams.len()).any(|s| self.stream_woken(s))
    }

    /// Observable state fingerprint: bytes written, input consumed, results, items.
    pub fn fingerprint(&self) -> (usize, usize, usize, usize, usize, bool) {
        (
            self.writer.len(),
            self.reader.0.borrow().consumed,
            self.ops.iter().filter(|o| o.res.is_some()).count(),
            self.streams.iter().map(|s| s.items.len()).sum::<usize>(),
            self.streams.iter().filter(|s| s.ended).count(),
            self.run_result.is_some() || !self.conn_results.is_empty(),
        )
    }

    // ---------------------------------------------------------------- wire tap

    /// Frame and (strictly) decode whatever the client has written since the last call.
    pub fn sync_wire(&mut self) {
        let data = self.writer.0.borrow();
        let bytes = &data.data;
        while self.parsed_upto < bytes.len() {
            match rc::split_frame(&bytes[self.parsed_upto..]) {
                Ok((first, _body, used)) => {
                    let start = self.parsed_upto;
                    let end = start + used;
                    let decoded = rc::decode_one(&bytes[start..end], rc::Dir::FromClient);
                    self.pkts.push(WirePkt {
                        start,
                        end,
                        first,
                        decoded,
                    });
                    self.parsed_upto = end;
                }
                Err(_) => break,
            }
        }
    }

    /// Bytes written that do not (yet) form a whole packet.
    pub fn wire_tail(&self) -> usize {
        self.writer.len() - self.parsed_upto
    }

    pub fn wire_len(&self) -> usize {
        self.writer.len()
    }
}

impl Default for World {
    fn default() -> Self {
        Self::new()
    }
}
