//! Deterministic single-thread executor pieces: tasks with counting wake flags, polls
//! wrapped in catch_unwind, a panic hook that records message and location.

use std::cell::RefCell;
use std::future::Future;
use std::panic::{self, AssertUnwindSafe};
use std::pin::Pin;
use std::sync::atomic::{AtomicUsize, Ordering};
use std::sync::{Arc, Once};
use std::task::{Context, Poll, Wake, Waker};

pub struct WakeFlag {
    pending: AtomicUsize,
    total: AtomicUsize,
}

impl WakeFlag {
    pub fn new(initially_woken: bool) -> Arc<Self> {
        Arc::new(Self {
            pending: AtomicUsize::new(initially_woken as usize),
            total: AtomicUsize::new(0),
        })
    }
    pub fn is_set(&self) -> bool {
        self.pending.load(Ordering::SeqCst) > 0
    }
    pub fn clear(&self) {
        self.pending.store(0, Ordering::SeqCst);
    }
    pub fn total(&self) -> usize {
        self.total.load(Ordering::SeqCst)
    }
}

impl Wake for WakeFlag {
    fn wake(self: Arc<Self>) {
        self.wake_by_ref()
    }
    fn wake_by_ref(self: &Arc<Self>) {
        self.pending.fetch_add(1, Ordering::SeqCst);
        self.total.fetch_add(1, Ordering::SeqCst);
    }
}

/// The waker handed out for ONE poll. The `Future` contract only entitles the waker of the most
/// recent poll to a wake-up, so every poll gets a waker of its own and a wake through an older one
/// does not count (it is tallied in `stale`): a future that keeps the waker of an earlier poll
/// (instead of re-registering the current one) then really does hang, as it may under any executor
/// that moves it between tasks.
pub struct GenWaker {
    flag: Arc<WakeFlag>,
    gen: usize,
    current: Arc<AtomicUsize>,
    stale: Arc<AtomicUsize>,
}

impl Wake for GenWaker {
    fn wake(self: Arc<Self>) {
        self.wake_by_ref()
    }
    fn wake_by_ref(self: &Arc<Self>) {
        if self.current.load(Ordering::SeqCst) == self.gen {
            self.flag.wake_by_ref();
        } else {
            self.stale.fetch_add(1, Ordering::SeqCst);
        }
    }
}

thread_local! {
    static LAST_PANIC: RefCell<Option<String>> = const { RefCell::new(None) };
    static CAPTURE: RefCell<bool> = const { RefCell::new(false) };
}

static HOOK: Once = Once::new();

/// Install (once per process) a panic hook that, while a library poll is in progress on
/// this thread, records the panic message + location instead of printing it.
pub fn install_panic_hook() {
    HOOK.call_once(|| {
        let prev = panic::take_hook();
        panic::set_hook(Box::new(move |info| {
            let capturing = CAPTURE.with(|c| *c.borrow());
            if capturing {
                let msg = if let Some(s) = info.payload().downcast_ref::<&str>() {
                    s.to_string()
                } else if let Some(s) = info.payload().downcast_ref::<String>() {
                    s.clone()
                } else {
                    "<non-string panic>".to_string()
                };
                let loc = info
                    .location()
                    .map(|l| format!("{}:{}", l.file(), l.line()))
                    .unwrap_or_default();
                LAST_PANIC.with(|p| *p.borrow_mut() = Some(format!("{msg} @ {loc}")));
            } else {
                prev(info);
            }
        }));
    });
}

/// Run `f`, catching a panic; returns Err(message @ location).
pub fn guarded<R>(f: impl FnOnce() -> R) -> Result<R, String> {
    install_panic_hook();
    CAPTURE.with(|c| *c.borrow_mut() = true);
    let r = panic::catch_unwind(AssertUnwindSafe(f));
    CAPTURE.with(|c| *c.borrow_mut() = false);
    match r {
        Ok(v) => Ok(v),
        Err(_) => Err(LAST_PANIC
            .with(|p| p.borrow_mut().take())
            .unwrap_or_else(|| "<panic without message>".into())),
    }
}

pub enum TaskState<T> {
    Running(Pin<Box<dyn Future<Output = T>>>),
    Done,
    Panicked(String),
    Dropped,
}

pub enum PollOut<T> {
    Pending,
    Ready(T),
    Panicked(String),
    /// polled although finished / dropped: nothing done
    Inert,
}

pub struct Task<T> {
    pub state: TaskState<T>,
    pub flag: Arc<WakeFlag>,
    pub polls: usize,
    gen: Arc<AtomicUsize>,
    pub stale_wakes: Arc<AtomicUsize>,
}

impl<T> Task<T> {
    pub fn new(fut: impl Future<Output = T> + 'static) -> Self {
        Self {
            state: TaskState::Running(Box::pin(fut)),
            flag: WakeFlag::new(true),
            polls: 0,
            gen: Arc::new(AtomicUsize::new(0)),
            stale_wakes: Arc::new(AtomicUsize::new(0)),
        }
    }
    pub fn is_running(&self) -> bool {
        matches!(self.state, TaskState::Running(_))
    }
    pub fn woken(&self) -> bool {
        self.is_running() && self.flag.is_set()
    }
    /// Poll once (whether or not woken). Clears the wake flag first.
    pub fn poll(&mut self) -> PollOut<T> {
        let fut = match &mut self.state {
            TaskState::Running(f) => f,
            _ => return PollOut::Inert,
        };
        self.flag.clear();
        self.polls += 1;
        let gen = self.gen.fetch_add(1, Ordering::SeqCst) + 1;
        let waker = Waker::from(Arc::new(GenWaker { flag: self.flag.clone(), gen, current: self.gen.clone(), stale: self.stale_wakes.clone() }));
        let mut cx = Context::from_waker(&waker);
        match guarded(|| fut.as_mut().poll(&mut cx)) {
            Ok(Poll::Pending) => PollOut::Pending,
            Ok(Poll::Ready(v)) => {
                // drop the finished future outside of any borrow
                let old = std::mem::replace(&mut self.state, TaskState::Done);
                let _ = guarded(move || drop(old));
                PollOut::Ready(v)
            }
            Err(msg) => {
                let old = std::mem::replace(&mut self.state, TaskState::Panicked(msg.clone()));
                // a future that panicked must not be polled again; leak-free drop guarded
                let _ = guarded(move || drop(old));
                PollOut::Panicked(msg)
            }
        }
    }
    /// Drop the future (cancellation).
    pub fn cancel(&mut self) -> Result<(), String> {
        let old = std::mem::replace(&mut self.state, TaskState::Dropped);
        guarded(move || drop(old))
    }
}

/// Poll a stream-like closure once with a dedicated flag.
pub struct PollCell {
    pub flag: Arc<WakeFlag>,
    pub polls: usize,
    gen: Arc<AtomicUsize>,
    pub stale_wakes: Arc<AtomicUsize>,
}

impl PollCell {
    pub fn new() -> Self {
        Self {
            flag: WakeFlag::new(true),
            polls: 0,
            gen: Arc::new(AtomicUsize::new(0)),
            stale_wakes: Arc::new(AtomicUsize::new(0)),
        }
    }
    pub fn poll_with<R>(&mut self, f: impl FnOnce(&mut Context<'_>) -> R) -> Result<R, String> {
        self.flag.clear();
        self.polls += 1;
        let gen = self.gen.fetch_add(1, Ordering::SeqCst) + 1;
        let waker = Waker::from(Arc::new(GenWaker { flag: self.flag.clone(), gen, current: self.gen.clone(), stale: self.stale_wakes.clone() }));
        let mut cx = Context::from_waker(&waker);
        guarded(|| f(&mut cx))
    }
}

impl Default for PollCell {
    fn default() -> Self {
        Self::new()
    }
}

/// Make sure this thread's `futures::select!` generator is initialised: advances the
/// process-global seed counter exactly once per thread (see DESIGN §2.4).
pub fn touch_select_rng() {
    let mut a = futures::future::ready(1u8);
    let mut b = futures::future::ready(2u8);
    let fut = async {
        futures::select! {
            x = a => x,
            y = b => y,
        }
    };
    let _ = futures::executor::block_on(fut);
}
