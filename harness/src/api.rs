//! Request specifications (one `Option` per optional builder method) and adapters that
//! apply them through poster's *public* builders, plus summaries of everything the
//! public accessors expose.

use crate::refcodec as rc;
use poster::error::MqttError;
use poster::prelude::Either;
use poster::reason::*;
use poster::*;
use serde::{Deserialize, Serialize};
use std::time::Duration;

pub type UserProps = Vec<(String, String)>;

// ---------------------------------------------------------------------------------
// specs

#[derive(Clone, Debug, PartialEq, Eq, Serialize, Deserialize, Default)]
pub struct WillSpec {
    pub qos: Option<u8>,
    pub retain: Option<bool>,
    pub delay_interval: Option<u32>,
    pub payload_format: Option<bool>,
    pub message_expiry: Option<u32>,
    pub content_type: Option<String>,
    pub response_topic: Option<String>,
    pub correlation_data: Option<Vec<u8>>,
    pub user_props: UserProps,
    pub topic: String,
    pub payload: Vec<u8>,
}

#[derive(Clone, Debug, PartialEq, Eq, Serialize, Deserialize, Default)]
pub struct ConnectSpec {
    pub client_id: Option<String>,
    pub keep_alive: Option<u16>,
    pub clean_start: Option<bool>,
    pub session_expiry: Option<u32>,
    pub receive_maximum: Option<u16>,
    pub maximum_packet_size: Option<u32>,
    pub topic_alias_maximum: Option<u16>,
    pub request_response_information: Option<bool>,
    pub request_problem_information: Option<bool>,
    pub auth_method: Option<String>,
    pub auth_data: Option<Vec<u8>>,
    pub user_props: UserProps,
    pub will: Option<WillSpec>,
    pub username: Option<String>,
    pub password: Option<Vec<u8>>,
}

#[derive(Clone, Debug, PartialEq, Eq, Serialize, Deserialize, Default)]
pub struct AuthSpec {
    pub reason: Option<u8>,
    pub method: Option<String>,
    pub data: Option<Vec<u8>>,
    pub user_props: UserProps,
}

#[derive(Clone, Debug, PartialEq, Eq, Serialize, Deserialize, Default)]
pub struct PublishSpec {
    pub qos: Option<u8>,
    pub retain: Option<bool>,
    pub topic: Option<String>,
    pub payload: Option<Vec<u8>>,
    pub payload_format: Option<bool>,
    pub topic_alias: Option<u16>,
    pub message_expiry: Option<u32>,
    pub correlation_data: Option<Vec<u8>>,
    pub response_topic: Option<String>,
    pub content_type: Option<String>,
    pub user_props: UserProps,
}

#[derive(Clone, Copy, Debug, PartialEq, Eq, Serialize, Deserialize, Default)]
pub struct SubOptsSpec {
    pub qos: Option<u8>,
    pub no_local: Option<bool>,
    pub retain_as_published: Option<bool>,
    pub retain_handling: Option<u8>,
}

#[derive(Clone, Debug, PartialEq, Eq, Serialize, Deserialize, Default)]
pub struct SubscribeSpec {
    pub filters: Vec<(String, SubOptsSpec)>,
    pub user_props: UserProps,
}

#[derive(Clone, Debug, PartialEq, Eq, Serialize, Deserialize, Default)]
pub struct UnsubscribeSpec {
    pub filters: Vec<String>,
    pub user_props: UserProps,
}

#[derive(Clone, Debug, PartialEq, Eq, Serialize, Deserialize, Default)]
pub struct DisconnectSpec {
    pub reason: Option<u8>,
    pub session_expiry: Option<u32>,
    pub reason_string: Option<String>,
    pub user_props: UserProps,
}

#[derive(Clone, Debug, PartialEq, Eq, Serialize, Deserialize)]
pub enum OpSpec {
    Publish(PublishSpec),
    Subscribe(SubscribeSpec),
    Unsubscribe(UnsubscribeSpec),
    Ping,
    Disconnect(DisconnectSpec),
}

impl OpSpec {
    pub fn kind(&self) -> &'static str {
        match self {
            OpSpec::Publish(p) => match p.qos.unwrap_or(0) {
                0 => "pub0",
                1 => "pub1",
                _ => "pub2",
            },
            OpSpec::Subscribe(_) => "sub",
            OpSpec::Unsubscribe(_) => "unsub",
            OpSpec::Ping => "ping",
            OpSpec::Disconnect(_) => "disconnect",
        }
    }
    pub fn qos(&self) -> u8 {
        match self {
            OpSpec::Publish(p) => p.qos.unwrap_or(0),
            _ => 0,
        }
    }
}

// ---------------------------------------------------------------------------------
// what the standard says the wire must carry for a spec (library-assigned identifiers
// are left 0 / None and filled in by the caller of `expected`)

impl ConnectSpec {
    /// None = the request must be refused before anything is written.
    pub fn expected(&self) -> Option<rc::Connect> {
        if self.auth_data.is_some() && self.auth_method.is_none() {
            return None;
        }
        Some(rc::Connect {
            clean_start: self.clean_start.unwrap_or(false),
            keep_alive: self.keep_alive.unwrap_or(0),
            session_expiry: self.session_expiry,
            receive_maximum: self.receive_maximum,
            maximum_packet_size: self.maximum_packet_size,
            topic_alias_maximum: self.topic_alias_maximum,
            request_response_information: self.request_response_information,
            request_problem_information: self.request_problem_information,
            auth_method: self.auth_method.clone(),
            auth_data: self.auth_data.clone(),
            user_props: self.user_props.clone(),
            client_id: self.client_id.clone().unwrap_or_default(),
            will: self.will.as_ref().map(|w| rc::Will {
                qos: w.qos.unwrap_or(0),
                retain: w.retain.unwrap_or(false),
                delay_interval: w.delay_interval,
                payload_format: w.payload_format,
                message_expiry: w.message_expiry,
                content_type: w.content_type.clone(),
                response_topic: w.response_topic.clone(),
                correlation_data: w.correlation_data.clone(),
                user_props: w.user_props.clone(),
                topic: w.topic.clone(),
                payload: w.payload.clone(),
            }),
            username: self.username.clone(),
            password: self.password.clone(),
        })
    }
}

impl AuthSpec {
    pub fn is_default(&self) -> bool {
        self.reason.unwrap_or(0) == 0
            && self.method.is_none()
            && self.data.is_none()
            && self.user_props.is_empty()
    }
    /// None = refused. An AUTH with nothing set is the standard's short form.
    pub fn expected(&self) -> Option<rc::Auth> {
        if self.is_default() {
            return Some(rc::Auth::default());
        }
        if self.method.is_none() || self.data.is_none() {
            return None;
        }
        Some(rc::Auth {
            reason: self.reason.unwrap_or(0),
            method: self.method.clone(),
            data: self.data.clone(),
            reason_string: None,
            user_props: self.user_props.clone(),
        })
    }
}

impl PublishSpec {
    pub fn expected(&self) -> Option<rc::Publish> {
        let topic = self.topic.clone()?;
        Some(rc::Publish {
            dup: false,
            qos: self.qos.unwrap_or(0),
            retain: self.retain.unwrap_or(false),
            topic,
            pid: None,
            payload_format: self.payload_format,
            message_expiry: self.message_expiry,
            topic_alias: self.topic_alias,
            response_topic: self.response_topic.clone(),
            correlation_data: self.correlation_data.clone(),
            user_props: self.user_props.clone(),
            subscription_ids: vec![],
            content_type: self.content_type.clone(),
            payload: self.payload.clone().unwrap_or_default(),
        })
    }
}

impl SubscribeSpec {
    pub fn expected(&self) -> Option<rc::Subscribe> {
        if self.filters.is_empty() {
            return None;
        }
        Some(rc::Subscribe {
            pid: 0,
            sub_id: None,
            user_props: self.user_props.clone(),
            filters: self
                .filters
                .iter()
                .map(|(f, o)| {
                    (
                        f.clone(),
                        rc::SubOpts {
                            // the library's documented default is QoS 2
                            qos: o.qos.unwrap_or(2),
                            no_local: o.no_local.unwrap_or(false),
                            retain_as_published: o.retain_as_published.unwrap_or(false),
                            retain_handling: o.retain_handling.unwrap_or(0),
                        },
                    )
                })
                .collect(),
        })
    }
}

impl UnsubscribeSpec {
    pub fn expected(&self) -> Option<rc::Unsubscribe> {
        if self.filters.is_empty() {
            return None;
        }
        Some(rc::Unsubscribe {
            pid: 0,
            user_props: self.user_props.clone(),
            filters: self.filters.clone(),
        })
    }
}

impl DisconnectSpec {
    pub fn expected(&self) -> rc::Disconnect {
        rc::Disconnect {
            reason: self.reason.unwrap_or(0),
            session_expiry: self.session_expiry,
            reason_string: self.reason_string.clone(),
            server_reference: None,
            user_props: self.user_props.clone(),
        }
    }
}

// ---------------------------------------------------------------------------------
// enum conversions

pub fn qos_of(v: u8) -> QoS {
    match v {
        0 => QoS::AtMostOnce,
        1 => QoS::AtLeastOnce,
        2 => QoS::ExactlyOnce,
        _ => panic!("harness: QoS {v}"),
    }
}

pub fn retain_handling_of(v: u8) -> RetainHandling {
    match v {
        0 => RetainHandling::SendOnSubscribe,
        1 => RetainHandling::SendIfNoSubscription,
        2 => RetainHandling::NoSendOnSubscribe,
        _ => panic!("harness: retain handling {v}"),
    }
}

pub fn auth_reason_of(v: u8) -> AuthReason {
    match v {
        0x00 => AuthReason::Success,
        0x18 => AuthReason::ContinueAuthentication,
        0x19 => AuthReason::ReAuthenticate,
        _ => panic!("harness: auth reason {v}"),
    }
}

pub fn disconnect_reason_of(v: u8) -> DisconnectReason {
    use DisconnectReason::*;
    match v {
        0x00 => Success,
        0x04 => DisconnectWithWillMessage,
        0x80 => UnspecifiedError,
        0x81 => MalformedPacket,
        0x82 => ProtocolError,
        0x83 => ImplementationSpecificError,
        0x87 => NotAuthorized,
        0x89 => ServerBusy,
        0x8b => ServerShuttingDown,
        0x8d => KeepAliveTimeout,
        0x8e => SessionTakenOver,
        0x8f => TopicFilterInvalid,
        0x90 => TopicNameInvalid,
        0x93 => ReceiveMaximumExcceeded,
        0x94 => TopicAliasInvalid,
        0x95 => PacketTooLarge,
        0x96 => MessageRateTooHigh,
        0x97 => QuotaExceeded,
        0x98 => AdministrativeAction,
        0x99 => PayloadFormatInvalid,
        0x9a => RetainNotSupported,
        0x9b => QoSNotSupported,
        0x9c => UseAnotherServer,
        0x9d => ServerMoved,
        0x9e => SharedSubscriptionsNotSupported,
        0x9f => ConnectionRateExceeded,
        0xa0 => MaximumConnectTime,
        0xa1 => SubscriptionIdentifiersNotSupported,
        0xa2 => WildcardSubscriptionsNotSupported,
        _ => panic!("harness: disconnect reason {v}"),
    }
}

// ---------------------------------------------------------------------------------
// applying specs through the public builders; each returns a 'static future that owns
// its data

pub type ConnOut = Result<Either<ConnectRsp, AuthRsp>, MqttError>;

pub fn apply_connect<'a>(spec: &'a ConnectSpec) -> ConnectOpts<'a> {
    let mut o = ConnectOpts::new();
    if let Some(v) = &spec.client_id {
        o = o.client_identifier(v);
    }
    if let Some(v) = spec.keep_alive {
        o = o.keep_alive(Duration::from_secs(v as u64));
    }
    if let Some(v) = spec.clean_start {
        o = o.clean_start(v);
    }
    if let Some(v) = spec.session_expiry {
        o = o.session_expiry_interval(Duration::from_secs(v as u64));
    }
    if let Some(v) = spec.receive_maximum {
        o = o.receive_maximum(v);
    }
    if let Some(v) = spec.maximum_packet_size {
        o = o.maximum_packet_size(v);
    }
    if let Some(v) = spec.topic_alias_maximum {
        o = o.topic_alias_maximum(v);
    }
    if let Some(v) = spec.request_response_information {
        o = o.request_response_information(v);
    }
    if let Some(v) = spec.request_problem_information {
        o = o.request_problem_information(v);
    }
    if let Some(v) = &spec.auth_method {
        o = o.authentication_method(v);
    }
    if let Some(v) = &spec.auth_data {
        o = o.authentication_data(v);
    }
    for (k, v) in &spec.user_props {
        o = o.user_property((k, v));
    }
    if let Some(w) = &spec.will {
        if let Some(v) = w.qos {
            o = o.will_qos(qos_of(v));
        }
        if let Some(v) = w.retain {
            o = o.will_retain(v);
        }
        if let Some(v) = w.delay_interval {
            o = o.will_delay_interval(Duration::from_secs(v as u64));
        }
        if let Some(v) = w.payload_format {
            o = o.will_payload_format_indicator(v);
        }
        if let Some(v) = w.message_expiry {
            o = o.will_message_expiry_interval(Duration::from_secs(v as u64));
        }
        if let Some(v) = &w.content_type {
            o = o.will_content_type(v);
        }
        if let Some(v) = &w.response_topic {
            o = o.will_response_topic(v);
        }
        if let Some(v) = &w.correlation_data {
            o = o.will_correlation_data(v);
        }
        for (k, v) in &w.user_props {
            o = o.will_user_property((k, v));
        }
        o = o.will_topic(&w.topic);
        o = o.will_payload(&w.payload);
    }
    if let Some(v) = &spec.username {
        o = o.username(v);
    }
    if let Some(v) = &spec.password {
        o = o.password(v);
    }
    o
}

pub fn apply_auth<'a>(spec: &'a AuthSpec) -> AuthOpts<'a> {
    let mut o = AuthOpts::new();
    if let Some(v) = spec.reason {
        o = o.reason(auth_reason_of(v));
    }
    if let Some(v) = &spec.method {
        o = o.authentication_method(v);
    }
    if let Some(v) = &spec.data {
        o = o.authentication_data(v);
    }
    for (k, v) in &spec.user_props {
        o = o.user_property((k, v));
    }
    o
}

pub fn apply_publish<'a>(spec: &'a PublishSpec) -> PublishOpts<'a> {
    let mut o = PublishOpts::new();
    if let Some(v) = spec.qos {
        o = o.qos(qos_of(v));
    }
    if let Some(v) = spec.retain {
        o = o.retain(v);
    }
    if let Some(v) = &spec.topic {
        o = o.topic_name(v);
    }
    if let Some(v) = &spec.payload {
        o = o.payload(v);
    }
    if let Some(v) = spec.payload_format {
        o = o.payload_format_indicator(v);
    }
    if let Some(v) = spec.topic_alias {
        o = o.topic_alias(v);
    }
    if let Some(v) = spec.message_expiry {
        o = o.message_expiry_interval(Duration::from_secs(v as u64));
    }
    if let Some(v) = &spec.correlation_data {
        o = o.correlation_data(v);
    }
    if let Some(v) = &spec.response_topic {
        o = o.response_topic(v);
    }
    if let Some(v) = &spec.content_type {
        o = o.content_type(v);
    }
    for (k, v) in &spec.user_props {
        o = o.user_property((k, v));
    }
    o
}

pub fn apply_subscribe<'a>(spec: &'a SubscribeSpec) -> SubscribeOpts<'a> {
    let mut o = SubscribeOpts::new();
    for (f, so) in &spec.filters {
        let mut s = SubscriptionOpts::new();
        if let Some(v) = so.qos {
            s = s.maximum_qos(qos_of(v));
        }
        if let Some(v) = so.no_local {
            s = s.no_local(v);
        }
        if let Some(v) = so.retain_as_published {
            s = s.retain_as_published(v);
        }
        if let Some(v) = so.retain_handling {
            s = s.retain_handling(retain_handling_of(v));
        }
        o = o.subscription(f, s);
    }
    for (k, v) in &spec.user_props {
        o = o.user_property((k, v));
    }
    o
}

pub fn apply_unsubscribe<'a>(spec: &'a UnsubscribeSpec) -> UnsubscribeOpts<'a> {
    let mut o = UnsubscribeOpts::new();
    for f in &spec.filters {
        o = o.topic_filter(f);
    }
    for (k, v) in &spec.user_props {
        o = o.user_property((k, v));
    }
    o
}

pub fn apply_disconnect<'a>(spec: &'a DisconnectSpec) -> DisconnectOpts<'a> {
    let mut o = DisconnectOpts::new();
    if let Some(v) = spec.reason {
        o = o.reason(disconnect_reason_of(v));
    }
    if let Some(v) = spec.session_expiry {
        o = o.session_expiry_interval(Duration::from_secs(v as u64));
    }
    if let Some(v) = &spec.reason_string {
        o = o.reason_string(v);
    }
    for (k, v) in &spec.user_props {
        o = o.user_property((k, v));
    }
    o
}

/// Result of a handle operation, still holding the library objects.
pub enum OpOut {
    Unit(Result<(), MqttError>),
    Sub(Result<SubscribeRsp, MqttError>),
    Unsub(Result<UnsubscribeRsp, MqttError>),
}

pub async fn run_op(mut h: ContextHandle, spec: OpSpec) -> OpOut {
    match &spec {
        OpSpec::Publish(p) => OpOut::Unit(h.publish(apply_publish(p)).await),
        OpSpec::Subscribe(s) => OpOut::Sub(h.subscribe(apply_subscribe(s)).await),
        OpSpec::Unsubscribe(s) => OpOut::Unsub(h.unsubscribe(apply_unsubscribe(s)).await),
        OpSpec::Ping => OpOut::Unit(h.ping().await),
        OpSpec::Disconnect(d) => OpOut::Unit(h.disconnect(apply_disconnect(d)).await),
    }
}

/// The same call made EAGERLY: `handle.publish(..)` / `subscribe(..)` / ... is called when the
/// operation is started, and the future it returns is polled later. With `async fn` methods the two
/// are indistinguishable; a method that does part of its work at call time (reserving an identifier,
/// say) behaves differently when futures are created in one order and first polled in another.
/// The future borrows the handle and the option strings, which live in boxes owned by this struct
/// and declared after it (dropped after it).
pub struct EagerOp {
    inner: Option<std::pin::Pin<Box<dyn std::future::Future<Output = OpOut>>>>,
    _handle: Option<Box<ContextHandle>>,
    _spec: Box<OpSpec>,
    /// set while this operation has exclusive use of a long-lived handle owned by the world
    busy: Option<std::rc::Rc<std::cell::Cell<bool>>>,
}

impl Drop for EagerOp {
    fn drop(&mut self) {
        self.inner = None; // ends the borrow of the handle first
        if let Some(b) = &self.busy {
            b.set(false);
        }
    }
}

impl EagerOp {
    pub fn new(h: ContextHandle, spec: OpSpec) -> Self {
        let mut handle = Box::new(h);
        let hp: *mut ContextHandle = &mut *handle;
        let mut op = unsafe { Self::on(hp, spec, None) };
        op._handle = Some(handle);
        op
    }

    /// The operation uses the handle behind `hp` (owned by the world, boxed, kept alive and
    /// untouched while `busy` is set) - the way a caller uses ONE handle for one operation after
    /// the other, so that whatever the handle remembers between calls is really there.
    ///
    /// # Safety
    /// `hp` must stay valid and unaliased until the returned value is dropped.
    pub unsafe fn on(hp: *mut ContextHandle, spec: OpSpec, busy: Option<std::rc::Rc<std::cell::Cell<bool>>>) -> Self {
        if let Some(b) = &busy {
            b.set(true);
        }
        let spec = Box::new(spec);
        let sp: *const OpSpec = &*spec;
        // SAFETY: the handle and the spec outlive `inner` (dropped first in Drop) and are not touched
        let inner: std::pin::Pin<Box<dyn std::future::Future<Output = OpOut>>> = {
            let h: &'static mut ContextHandle = &mut *hp;
            match &*sp {
                OpSpec::Publish(p) => {
                    let f = h.publish(apply_publish(p));
                    Box::pin(async move { OpOut::Unit(f.await) })
                }
                OpSpec::Subscribe(s) => {
                    let f = h.subscribe(apply_subscribe(s));
                    Box::pin(async move { OpOut::Sub(f.await) })
                }
                OpSpec::Unsubscribe(s) => {
                    let f = h.unsubscribe(apply_unsubscribe(s));
                    Box::pin(async move { OpOut::Unsub(f.await) })
                }
                OpSpec::Ping => {
                    let f = h.ping();
                    Box::pin(async move { OpOut::Unit(f.await) })
                }
                OpSpec::Disconnect(d) => {
                    let f = h.disconnect(apply_disconnect(d));
                    Box::pin(async move { OpOut::Unit(f.await) })
                }
            }
        };
        Self { inner: Some(inner), _handle: None, _spec: spec, busy }
    }
}

impl std::future::Future for EagerOp {
    type Output = OpOut;
    fn poll(self: std::pin::Pin<&mut Self>, cx: &mut std::task::Context<'_>) -> std::task::Poll<OpOut> {
        self.get_mut().inner.as_mut().expect("polled after drop").as_mut().poll(cx)
    }
}

// ---------------------------------------------------------------------------------
// summaries of everything readable through public accessors

thread_local! {
    /// inconsistencies between the UserProperties accessors, noticed while summarising
    pub static ACCESSOR_ISSUES: std::cell::RefCell<Vec<String>> = const { std::cell::RefCell::new(Vec::new()) };
}

pub fn take_accessor_issues() -> Vec<String> {
    ACCESSOR_ISSUES.with(|a| std::mem::take(&mut *a.borrow_mut()))
}

/// Reads the user properties through `iter()` and cross-checks every other accessor
/// (`len`, `is_empty`, `keys`, `values`, `get`, `contains_key`) against it.
pub fn up_of(u: &UserProperties) -> UserProps {
    let got: UserProps = u.iter().map(|(k, v)| (k.to_string(), v.to_string())).collect();
    if let Some(issue) = up_consistency(u, &got) {
        ACCESSOR_ISSUES.with(|a| a.borrow_mut().push(issue));
    }
    got
}

/// Cross-check the UserProperties accessors against each other; returns a description
/// of the first inconsistency.
pub fn up_consistency(u: &UserProperties, want: &UserProps) -> Option<String> {
    let got: UserProps = u.iter().map(|(k, v)| (k.to_string(), v.to_string())).collect();
    if &got != want {
        return Some(format!("user properties iter() = {got:?}, want {want:?}"));
    }
    if u.len() != want.len() || u.is_empty() != want.is_empty() {
        return Some(format!("user properties len() = {}, want {}", u.len(), want.len()));
    }
    let keys: Vec<String> = u.keys().map(|s| s.to_string()).collect();
    let vals: Vec<String> = u.values().map(|s| s.to_string()).collect();
    if keys != want.iter().map(|p| p.0.clone()).collect::<Vec<_>>()
        || vals != want.iter().map(|p| p.1.clone()).collect::<Vec<_>>()
    {
        return Some("user properties keys()/values() disagree with the encoded list".into());
    }
    for (k, _) in want {
        if !u.contains_key(k) {
            return Some(format!("contains_key({k:?}) is false"));
        }
        let g: Vec<String> = u.get(k).map(|s| s.to_string()).collect();
        let w: Vec<String> = want.iter().filter(|p| &p.0 == k).map(|p| p.1.clone()).collect();
        if g != w {
            return Some(format!("get({k:?}) = {g:?}, want {w:?}"));
        }
    }
    if u.contains_key("\u{1}never-a-key") {
        return Some("contains_key of an absent key is true".into());
    }
    None
}

#[derive(Clone, Debug, PartialEq, Eq, Serialize, Deserialize)]
pub enum ErrSum {
    Internal(String),
    Connect {
        reason: u8,
        reason_string: Option<String>,
        server_reference: Option<String>,
        user_props: UserProps,
    },
    Auth {
        reason: u8,
        reason_string: Option<String>,
        user_props: UserProps,
    },
    Puback {
        reason: u8,
        reason_string: Option<String>,
        user_props: UserProps,
    },
    Pubrec {
        reason: u8,
        reason_string: Option<String>,
        user_props: UserProps,
    },
    Pubcomp {
        reason: u8,
        reason_string: Option<String>,
        user_props: UserProps,
    },
    SocketClosed,
    HandleClosed,
    ContextExited,
    Disconnected {
        reason: u8,
        session_expiry: u64,
        reason_string: Option<String>,
        server_reference: Option<String>,
        user_props: UserProps,
    },
    Codec(String),
    QuotaExceeded,
    MaximumPacketSizeExceeded,
}

impl ErrSum {
    pub fn kind(&self) -> &'static str {
        match self {
            ErrSum::Internal(_) => "InternalError",
            ErrSum::Connect { .. } => "ConnectError",
            ErrSum::Auth { .. } => "AuthError",
            ErrSum::Puback { .. } => "PubackError",
            ErrSum::Pubrec { .. } => "PubrecError",
            ErrSum::Pubcomp { .. } => "PubcompError",
            ErrSum::SocketClosed => "SocketClosed",
            ErrSum::HandleClosed => "HandleClosed",
            ErrSum::ContextExited => "ContextExited",
            ErrSum::Disconnected { .. } => "Disconnected",
            ErrSum::Codec(_) => "CodecError",
            ErrSum::QuotaExceeded => "QuotaExceeded",
            ErrSum::MaximumPacketSizeExceeded => "MaximumPacketSizeExceeded",
        }
    }
}

fn os(s: Option<&str>) -> Option<String> {
    s.map(|x| x.to_string())
}

pub fn err_sum(e: &MqttError) -> ErrSum {
    match e {
        MqttError::InternalError(x) => ErrSum::Internal(x.to_string()),
        MqttError::ConnectError(x) => ErrSum::Connect {
            reason: x.reason() as u8,
            reason_string: os(x.reason_string()),
            server_reference: os(x.server_reference()),
            user_props: up_of(x.user_properties()),
        },
        MqttError::AuthError(x) => ErrSum::Auth {
            reason: x.reason() as u8,
            reason_string: os(x.reason_string()),
            user_props: up_of(x.user_properties()),
        },
        MqttError::PubackError(x) => ErrSum::Puback {
            reason: x.reason() as u8,
            reason_string: os(x.reason_string()),
            user_props: up_of(x.user_properties()),
        },
        MqttError::PubrecError(x) => ErrSum::Pubrec {
            reason: x.reason() as u8,
            reason_string: os(x.reason_string()),
            user_props: up_of(x.user_properties()),
        },
        MqttError::PubcompError(x) => ErrSum::Pubcomp {
            reason: x.reason() as u8,
            reason_string: os(x.reason_string()),
            user_props: up_of(x.user_properties()),
        },
        MqttError::SocketClosed(_) => ErrSum::SocketClosed,
        MqttError::HandleClosed(_) => ErrSum::HandleClosed,
        MqttError::ContextExited(_) => ErrSum::ContextExited,
        MqttError::Disconnected(x) => ErrSum::Disconnected {
            reason: x.reason() as u8,
            session_expiry: x.session_expiry_interval().as_secs(),
            reason_string: os(x.reason_string()),
            server_reference: os(x.server_reference()),
            user_props: up_of(x.user_properties()),
        },
        MqttError::CodecError(x) => ErrSum::Codec(x.to_string()),
        MqttError::QuotaExceeded(_) => ErrSum::QuotaExceeded,
        MqttError::MaximumPacketSizeExceeded(_) => ErrSum::MaximumPacketSizeExceeded,
    }
}

/// Everything `ConnectRsp` exposes.
#[derive(Clone, Debug, PartialEq, Eq, Serialize, Deserialize)]
pub struct ConnackView {
    pub session_present: bool,
    pub reason: u8,
    pub wildcard_available: bool,
    pub sub_ids_available: bool,
    pub shared_available: bool,
    pub maximum_qos: u8,
    pub retain_available: bool,
    pub server_keep_alive: Option<u64>,
    pub receive_maximum: u16,
    pub topic_alias_maximum: u16,
    pub session_expiry: Option<u64>,
    pub maximum_packet_size: Option<u32>,
    pub assigned_client_id: Option<String>,
    pub reason_string: Option<String>,
    pub response_information: Option<String>,
    pub server_reference: Option<String>,
    pub auth_method: Option<String>,
    pub auth_data: Option<Vec<u8>>,
    pub user_props: UserProps,
}

pub fn connack_view(r: &ConnectRsp) -> ConnackView {
    ConnackView {
        session_present: r.session_present(),
        reason: r.reason() as u8,
        wildcard_available: r.wildcard_subscription_available(),
        sub_ids_available: r.subscription_identifier_available(),
        shared_available: r.shared_subscription_available(),
        maximum_qos: r.maximum_qos() as u8,
        retain_available: r.retain_available(),
        server_keep_alive: r.server_keep_alive().map(|d| d.as_secs()),
        receive_maximum: r.receive_maximum(),
        topic_alias_maximum: r.topic_alias_maximum(),
        session_expiry: r.session_expiry_interval().map(|d| d.as_secs()),
        maximum_packet_size: r.maximum_packet_size(),
        assigned_client_id: os(r.assigned_client_identifier()),
        reason_string: os(r.reason_string()),
        response_information: os(r.response_information()),
        server_reference: os(r.server_reference()),
        auth_method: os(r.authentication_method()),
        auth_data: r.authentication_data().map(|d| d.to_vec()),
        user_props: up_of(r.user_properties()),
    }
}

/// What the standard says the accessors must read for an encoded CONNACK.
pub fn connack_expected(c: &rc::Connack) -> ConnackView {
    ConnackView {
        session_present: c.session_present,
        reason: c.reason,
        wildcard_available: c.wildcard_available.unwrap_or(true),
        sub_ids_available: c.sub_ids_available.unwrap_or(true),
        shared_available: c.shared_available.unwrap_or(true),
        maximum_qos: c.maximum_qos.unwrap_or(2),
        retain_available: c.retain_available.unwrap_or(true),
        server_keep_alive: c.server_keep_alive.map(|v| v as u64),
        receive_maximum: c.receive_maximum.unwrap_or(65535),
        topic_alias_maximum: c.topic_alias_maximum.unwrap_or(0),
        session_expiry: c.session_expiry.map(|v| v as u64),
        maximum_packet_size: c.maximum_packet_size,
        assigned_client_id: c.assigned_client_id.clone(),
        reason_string: c.reason_string.clone(),
        response_information: c.response_information.clone(),
        server_reference: c.server_reference.clone(),
        auth_method: c.auth_method.clone(),
        auth_data: c.auth_data.clone(),
        user_props: c.user_props.clone(),
    }
}

#[derive(Clone, Debug, PartialEq, Eq, Serialize, Deserialize)]
pub struct AuthView {
    pub reason: u8,
    pub reason_string: Option<String>,
    pub method: Option<String>,
    pub data: Option<Vec<u8>>,
    pub user_props: UserProps,
}

pub fn auth_view(r: &AuthRsp) -> AuthView {
    AuthView {
        reason: r.reason() as u8,
        reason_string: os(r.reason_string()),
        method: os(r.authentication_method()),
        data: r.authentication_data().map(|d| d.to_vec()),
        user_props: up_of(r.user_properties()),
    }
}

pub fn auth_expected(a: &rc::Auth) -> AuthView {
    AuthView {
        reason: a.reason,
        reason_string: a.reason_string.clone(),
        method: a.method.clone(),
        data: a.data.clone(),
        user_props: a.user_props.clone(),
    }
}

#[derive(Clone, Debug, PartialEq, Eq, Serialize, Deserialize)]
pub enum ConnRes {
    Connack(ConnackView),
    Auth(AuthView),
    Err(ErrSum),
}

pub fn conn_res(r: &ConnOut) -> ConnRes {
    match r {
        Ok(Either::Left(c)) => ConnRes::Connack(connack_view(c)),
        Ok(Either::Right(a)) => ConnRes::Auth(auth_view(a)),
        Err(e) => ConnRes::Err(err_sum(e)),
    }
}

/// Serializable result of a handle operation.
#[derive(Clone, Debug, PartialEq, Eq, Serialize, Deserialize)]
pub enum OpRes {
    Ok,
    SubOk {
        reasons: Vec<u8>,
        reason_string: Option<String>,
        user_props: UserProps,
    },
    UnsubOk {
        reasons: Vec<u8>,
        reason_string: Option<String>,
        user_props: UserProps,
    },
    Err(ErrSum),
}

impl OpRes {
    pub fn short(&self) -> String {
        match self {
            OpRes::Ok => "Ok".into(),
            OpRes::SubOk { .. } => "SubOk".into(),
            OpRes::UnsubOk { .. } => "UnsubOk".into(),
            OpRes::Err(e) => format!("Err({})", e.kind()),
        }
    }
}

pub fn op_res(o: &OpOut) -> OpRes {
    match o {
        OpOut::Unit(Ok(())) => OpRes::Ok,
        OpOut::Unit(Err(e)) => OpRes::Err(err_sum(e)),
        OpOut::Sub(Ok(r)) => OpRes::SubOk {
            reasons: r.payload().iter().map(|x| *x as u8).collect(),
            reason_string: os(r.reason_string()),
            user_props: up_of(r.user_properties()),
        },
        OpOut::Sub(Err(e)) => OpRes::Err(err_sum(e)),
        OpOut::Unsub(Ok(r)) => OpRes::UnsubOk {
            reasons: r.payload().iter().map(|x| *x as u8).collect(),
            reason_string: os(r.reason_string()),
            user_props: up_of(r.user_properties()),
        },
        OpOut::Unsub(Err(e)) => OpRes::Err(err_sum(e)),
    }
}

/// Everything `PublishData` exposes.
#[derive(Clone, Debug, PartialEq, Eq, Serialize, Deserialize)]
pub struct MsgView {
    pub dup: bool,
    pub retain: bool,
    pub qos: u8,
    pub topic: String,
    pub payload_format: Option<bool>,
    pub topic_alias: Option<u16>,
    pub message_expiry: Option<u64>,
    pub correlation_data: Option<Vec<u8>>,
    pub response_topic: Option<String>,
    pub content_type: Option<String>,
    pub payload: Vec<u8>,
    pub user_props: UserProps,
}

pub fn msg_view(p: &PublishData) -> MsgView {
    MsgView {
        dup: p.dup(),
        retain: p.retain(),
        qos: p.qos() as u8,
        topic: p.topic_name().to_string(),
        payload_format: p.payload_format_indicator(),
        topic_alias: p.topic_alias(),
        message_expiry: p.message_expiry_interval().map(|d| d.as_secs()),
        correlation_data: p.correlation_data().map(|d| d.to_vec()),
        response_topic: os(p.response_topic()),
        content_type: os(p.content_type()),
        payload: p.payload().to_vec(),
        user_props: up_of(p.user_properties()),
    }
}

pub fn msg_expected(p: &rc::Publish) -> MsgView {
    MsgView {
        dup: p.dup,
        retain: p.retain,
        qos: p.qos,
        topic: p.topic.clone(),
        payload_format: p.payload_format,
        topic_alias: p.topic_alias,
        message_expiry: p.message_expiry.map(|v| v as u64),
        correlation_data: p.correlation_data.clone(),
        response_topic: p.response_topic.clone(),
        content_type: p.content_type.clone(),
        payload: p.payload.clone(),
        user_props: p.user_props.clone(),
    }
}
