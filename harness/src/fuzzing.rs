//! Coverage-guided fuzzing glue. A fuzz input is turned into a structured case either
//! by a hand-written total decoder (`rx_raw`) or by driving the property's own proptest
//! strategy with proptest's pass-through generator (the fuzzer's bytes *are* the random
//! choices, so byte-level mutations are local changes of the case). The same `run`
//! (oracle included) as in the pbt engine decides; nothing here is a crash-waiter.

use crate::driver::{Failure, Property, Tier};
use crate::props::c04;
use proptest::strategy::{Strategy, ValueTree};
use proptest::test_runner::{Config, RngAlgorithm, TestRng, TestRunner};

pub fn case_from_bytes<P: Property>(data: &[u8]) -> Option<P::Case> {
    let cfg = Config {
        failure_persistence: None,
        ..Config::default()
    };
    // proptest's pass-through generator cannot carry these strategies: every `prop_oneof!` forks
    // the generator for its lazily built alternatives and a fork takes half of what is left of the
    // input, so the bytes are gone after a dozen choices, zeros follow, and rand's uniform sampling
    // rejects a zero draw for ever. The input seeds a ChaCha generator instead (a byte-level
    // mutation then is a fresh random case of the property's own distribution; the hand-written
    // decoders `scenario_from_bytes` / `rx_raw_case` are the ones that mutate locally).
    let mut seed = [0u8; 32];
    for (i, b) in data.iter().enumerate() {
        let j = i % 32;
        seed[j] = (seed[j] ^ *b).rotate_left(3).wrapping_add(i as u8);
    }
    let rng = TestRng::from_seed(RngAlgorithm::ChaCha, &seed);
    let mut runner = TestRunner::new_with_rng(cfg, rng);
    P::strategy(Tier::Quick)
        .new_tree(&mut runner)
        .ok()
        .map(|t| t.current())
}

/// Structured target: returns the failure (if any) together with the serialised case.
pub fn fuzz_struct<P: Property>(data: &[u8]) -> Option<(Failure, String)> {
    let case = case_from_bytes::<P>(data)?;
    let out = P::run(&case);
    out.fail
        .map(|f| (f, serde_json::to_string(&case).unwrap_or_default()))
}

/// Hand-written total decoder for the raw inbound-bytes target (C04):
/// byte 0: phase, byte 1: read chunking, bytes 2-3: fault kind and offset, rest: input.
pub fn rx_raw_case(data: &[u8]) -> c04::Case {
    let b = |i: usize| data.get(i).copied().unwrap_or(0);
    let phase = match b(0) % 4 {
        0 => c04::Phase::Connect,
        1 => c04::Phase::Authorize,
        _ => c04::Phase::Run,
    };
    let chunk = match b(1) % 10 {
        0..=3 => 0u16,
        4 => 1,
        5 => 2,
        6 => 3,
        7 => 7,
        8 => 512,
        _ => 600,
    };
    let off = b(3) as u16;
    let fault = match b(2) % 10 {
        0..=5 => c04::Fault::None,
        6 => c04::Fault::Eof(off),
        7 => c04::Fault::ReadErr(off),
        8 => c04::Fault::WriteErr(off),
        _ => c04::Fault::WriteZero(off),
    };
    c04::Case {
        phase,
        label: "fuzz-raw".into(),
        bytes: data.get(4..).unwrap_or(&[]).to_vec(),
        chunk,
        fault,
    }
}

pub fn fuzz_rx_raw(data: &[u8]) -> Option<(Failure, String)> {
    let case = rx_raw_case(data);
    let out = <c04::C04 as Property>::run(&case);
    out.fail
        .map(|f| (f, serde_json::to_string(&case).unwrap_or_default()))
}

/// Entry used by the fuzz targets: panics (so libFuzzer keeps the input) on a violation.
pub fn check(target: &str, r: Option<(Failure, String)>) {
    if let Some((f, case)) = r {
        let mut c = case;
        if c.len() > 2000 {
            c.truncate(2000);
        }
        panic!("VERIF-VIOLATION target={target} sig={} :: {} :: case={c}", f.sig, f.msg);
    }
}

/// Hand-written total decoder for histories: 4 header bytes, then 4 bytes per event. Unlike the
/// strategy-driven decoding (whose choices all move when one byte changes) a byte-level mutation
/// here changes one event, inserts or deletes one - the shape coverage guidance needs.
/// `inbound`: the broker also sends application messages (the history then starts with an
/// acknowledged subscription whose stream exists, and the client-side limits are never tiny).
pub fn scenario_from_bytes(data: &[u8], inbound: bool) -> crate::sim::Scenario {
    use crate::sim::*;
    let b = |i: usize| data.get(i).copied().unwrap_or(0);
    let receive_max = match b(0) % 8 {
        4 => Some(1u16),
        5 => Some(2),
        6 => Some(3),
        7 => Some(16),
        _ => None,
    };
    let max_packet_size = match b(1) % 8 {
        6 if !inbound => Some(30u32),
        7 if !inbound => Some(250),
        _ => None,
    };
    let id_offset = match b(2) % 16 {
        12 => 250u32,
        13 => 255,
        14 => 510,
        _ => 0,
    };
    // connection prologue: Session Present, extra CONNACK properties, AUTH path, order, roomy
    // client limits, an earlier connection (bits 0-4 and 6)
    let prologue = b(3) & 0x5f;
    let sel = |x: u8, y: u8| -> u16 {
        match x % 4 {
            0 => 0,
            1 => 65535,
            _ => u16::from_be_bytes([x, y]),
        }
    };
    let mut events = vec![];
    if inbound {
        events.extend([
            Ev::Start { h: 0, kind: OpKind::Sub(0), settle: false, solo: false },
            Ev::In(Inbound::Ack { sel: 0, deco: Deco::default() }),
            Ev::MakeStream { sel: 0 },
        ]);
    }
    for c in data.get(4..).unwrap_or(&[]).chunks(4).take(150) {
        let g = |i: usize| c.get(i).copied().unwrap_or(0);
        let (k, x, y, z) = (g(0), g(1), g(2), g(3));
        let ev = match k % 24 {
            0..=4 => Ev::Start {
                h: (x % 3) * 64,
                kind: match y % 8 {
                    0 => OpKind::Pub0,
                    1 | 6 => OpKind::Pub1,
                    2 | 7 => OpKind::Pub2,
                    3 => OpKind::Sub(z % 4),
                    4 => OpKind::Unsub(z % 3),
                    _ => OpKind::Ping,
                },
                settle: false,
                solo: false,
            },
            5..=9 => Ev::In(Inbound::Ack { sel: sel(x, y), deco: Deco { reason: z, reason_string: z & 1 != 0, user_props: (z >> 1) % 3, short: z & 8 != 0 } }),
            10 => Ev::PollCtx,
            11 => Ev::PollOp { sel: sel(x, y) },
            12 | 13 => Ev::Settle,
            14 => Ev::DropOp { sel: sel(x, y) },
            15 => Ev::CloneHandle,
            16 => Ev::ReenterRun,
            17..=19 if inbound => Ev::In(Inbound::Publish {
                qos: x % 3,
                dup: x & 4 != 0,
                retain: x & 8 != 0,
                pid: [0u16, 0, 0, 1, 2, 3, 258, 65535][(y % 8) as usize],
                target: match z % 8 {
                    0..=3 => Target::Sub(sel(z >> 3, y)),
                    4 => Target::Two(0, 65535),
                    5 => Target::Unknown,
                    6 => Target::None,
                    _ => Target::All,
                },
                payload_len: (z >> 3) as u16 % 8,
                props: 0,
            }),
            20 if inbound => Ev::In(Inbound::Pubrel { pid: [1u16, 2, 3, 258, 65535, 9][(x % 6) as usize], known: false }),
            21 if inbound => Ev::MakeStream { sel: sel(x, y) },
            22 if inbound => Ev::DropStream { sel: sel(x, y) },
            23 if inbound => Ev::PollStream { sel: sel(x, y) },
            _ => Ev::PollCtx,
        };
        events.push(ev);
    }
    Scenario { receive_max, max_packet_size, id_offset, prologue, events }
}

/// Properties whose case is a history: even first byte = hand-decoded history, odd = the
/// property's own strategy.
fn fuzz_scn<P: Property<Case = crate::sim::Scenario>>(data: &[u8], inbound: bool) -> Option<(Failure, String)> {
    let (mode, rest) = data.split_first()?;
    if mode % 2 == 1 {
        return fuzz_struct::<P>(rest);
    }
    let case = scenario_from_bytes(rest, inbound);
    let out = P::run(&case);
    out.fail.map(|f| (f, serde_json::to_string(&case).unwrap_or_default()))
}

/// Shared `hist` target: the first byte (or $VERIF_HIST_SEL) selects the property.
pub fn fuzz_hist(data: &[u8]) -> Option<(Failure, String)> {
    use crate::props::simprops::*;
    let (sel, rest) = data.split_first()?;
    let sel = std::env::var("VERIF_HIST_SEL")
        .ok()
        .and_then(|s| s.parse::<u8>().ok())
        .unwrap_or(*sel);
    use crate::props::misc::{C11, C12, C17};
    match sel % 13 {
        0 => fuzz_scn::<C06>(rest, false),
        1 => fuzz_scn::<C07>(rest, true),
        2 => fuzz_scn::<C08>(rest, true),
        3 => fuzz_scn::<C09>(rest, true),
        4 => fuzz_scn::<C10>(rest, false),
        5 => fuzz_struct::<C13>(rest),
        6 => fuzz_scn::<C15>(rest, false),
        7 => fuzz_scn::<C05>(rest, data.get(1).map(|b| b & 2 != 0).unwrap_or(false)),
        8 => fuzz_struct::<C12>(rest),
        9 => fuzz_struct::<C14>(rest),
        10 => fuzz_struct::<C16>(rest),
        11 => fuzz_struct::<C17>(rest),
        _ => {
            // C11: only the fine-grained schedules (a long history takes seconds)
            let case = case_from_bytes::<C11>(rest)?;
            case.history.as_ref()?;
            let out = <C11 as Property>::run(&case);
            out.fail.map(|f| (f, serde_json::to_string(&case).unwrap_or_default()))
        }
    }
}
