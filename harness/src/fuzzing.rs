//! Coverage-guided fuzzing glue. A fuzz input is turned into a structured case either
//! by a hand-written total decoder (`rx_raw`) or by driving the property's own proptest
//! strategy with proptest's pass-through generator (the fuzzer's bytes *are* the random
//! choices, so byte-level mutations are local changes of the case). The same `run`
//! (oracle included) as in the pbt engine decides; nothing here is a crash-waiter.

use crate::driver::{Failure, Property, Tier};
use crate::props::c04;
use proptest::strategy::{Strategy, ValueTree};
use proptest::test_runner::{Config, RngAlgorithm, TestRng, TestRunner};

pub fn case_from_bytes<P: Property>(data: &[u8]) -> Option<P::Case> {
    let cfg = Config {
        failure_persistence: None,
        ..Config::default()
    };
    let rng = TestRng::from_seed(RngAlgorithm::PassThrough, data);
    let mut runner = TestRunner::new_with_rng(cfg, rng);
    P::strategy(Tier::Quick)
        .new_tree(&mut runner)
        .ok()
        .map(|t| t.current())
}

/// Structured target: returns the failure (if any) together with the serialised case.
pub fn fuzz_struct<P: Property>(data: &[u8]) -> Option<(Failure, String)> {
    let case = case_from_bytes::<P>(data)?;
    let out = P::run(&case);
    out.fail
        .map(|f| (f, serde_json::to_string(&case).unwrap_or_default()))
}

/// Hand-written total decoder for the raw inbound-bytes target (C04):
/// byte 0: phase, byte 1: read chunking, bytes 2-3: fault kind and offset, rest: input.
pub fn rx_raw_case(data: &[u8]) -> c04::Case {
    let b = |i: usize| data.get(i).copied().unwrap_or(0);
    let phase = match b(0) % 4 {
        0 => c04::Phase::Connect,
        1 => c04::Phase::Authorize,
        _ => c04::Phase::Run,
    };
    let chunk = match b(1) % 10 {
        0..=3 => 0u16,
        4 => 1,
        5 => 2,
        6 => 3,
        7 => 7,
        8 => 512,
        _ => 600,
    };
    let off = b(3) as u16;
    let fault = match b(2) % 10 {
        0..=5 => c04::Fault::None,
        6 => c04::Fault::Eof(off),
        7 => c04::Fault::ReadErr(off),
        8 => c04::Fault::WriteErr(off),
        _ => c04::Fault::WriteZero(off),
    };
    c04::Case {
        phase,
        label: "fuzz-raw".into(),
        bytes: data.get(4..).unwrap_or(&[]).to_vec(),
        chunk,
        fault,
    }
}

pub fn fuzz_rx_raw(data: &[u8]) -> Option<(Failure, String)> {
    let case = rx_raw_case(data);
    let out = <c04::C04 as Property>::run(&case);
    out.fail
        .map(|f| (f, serde_json::to_string(&case).unwrap_or_default()))
}

/// Entry used by the fuzz targets: panics (so libFuzzer keeps the input) on a violation.
pub fn check(target: &str, r: Option<(Failure, String)>) {
    if let Some((f, case)) = r {
        let mut c = case;
        if c.len() > 2000 {
            c.truncate(2000);
        }
        panic!("VERIF-VIOLATION target={target} sig={} :: {} :: case={c}", f.sig, f.msg);
    }
}

/// Shared `hist` target: the first byte (or $VERIF_HIST_SEL) selects the property.
pub fn fuzz_hist(data: &[u8]) -> Option<(Failure, String)> {
    use crate::props::simprops::*;
    let (sel, rest) = data.split_first()?;
    let sel = std::env::var("VERIF_HIST_SEL")
        .ok()
        .and_then(|s| s.parse::<u8>().ok())
        .unwrap_or(*sel);
    use crate::props::misc::{C11, C12, C17};
    match sel % 13 {
        0 => fuzz_struct::<C06>(rest),
        1 => fuzz_struct::<C07>(rest),
        2 => fuzz_struct::<C08>(rest),
        3 => fuzz_struct::<C09>(rest),
        4 => fuzz_struct::<C10>(rest),
        5 => fuzz_struct::<C13>(rest),
        6 => fuzz_struct::<C15>(rest),
        7 => fuzz_struct::<C05>(rest),
        8 => fuzz_struct::<C12>(rest),
        9 => fuzz_struct::<C14>(rest),
        10 => fuzz_struct::<C16>(rest),
        11 => fuzz_struct::<C17>(rest),
        _ => {
            // C11: only the fine-grained schedules (a long history takes seconds)
            let case = case_from_bytes::<C11>(rest)?;
            case.history.as_ref()?;
            let out = <C11 as Property>::run(&case);
            out.fail.map(|f| (f, serde_json::to_string(&case).unwrap_or_default()))
        }
    }
}
