//! Generic campaign driver: proptest runner on fresh threads, exhaustive slices, regress
//! replay, known-finding tolerance, worker processes, evidence.

use proptest::strategy::{BoxedStrategy, Strategy, ValueTree};
use proptest::test_runner::{Config, RngSeed, TestCaseError, TestError, TestRunner};
use serde::de::DeserializeOwned;
use serde::{Deserialize, Serialize};
use std::cell::RefCell;
use std::collections::{BTreeMap, BTreeSet};
use std::fmt::Debug;
use std::hash::{Hash, Hasher};
use std::sync::atomic::{AtomicUsize, Ordering};
use std::time::Instant;

#[derive(Clone, Copy, Debug, PartialEq, Eq)]
pub enum Tier {
    Quick,
    Thorough,
}

impl Tier {
    pub fn name(&self) -> &'static str {
        match self {
            Tier::Quick => "quick",
            Tier::Thorough => "thorough",
        }
    }
    pub fn parse(s: &str) -> Option<Tier> {
        match s {
            "quick" => Some(Tier::Quick),
            "thorough" => Some(Tier::Thorough),
            _ => None,
        }
    }
    pub fn pick<T>(&self, quick: T, thorough: T) -> T {
        match self {
            Tier::Quick => quick,
            Tier::Thorough => thorough,
        }
    }
}

#[derive(Clone, Debug, Serialize, Deserialize, PartialEq, Eq)]
pub struct Failure {
    /// stable classifier of *what* fails (kind + shape), used for known findings
    pub sig: String,
    pub msg: String,
}

#[derive(Clone, Debug, Default)]
pub struct Outcome {
    pub fail: Option<Failure>,
    pub nontrivial: bool,
    pub classes: Vec<String>,
    /// soundness exclusions applied while interpreting this case
    pub excluded: Vec<String>,
}

impl Outcome {
    pub fn ok() -> Self {
        Self::default()
    }
    pub fn fail(sig: impl Into<String>, msg: impl Into<String>) -> Self {
        Self {
            fail: Some(Failure {
                sig: sig.into(),
                msg: msg.into(),
            }),
            ..Default::default()
        }
    }
    pub fn class(&mut self, c: impl Into<String>) {
        self.classes.push(c.into());
    }
}

pub trait Property {
    const ID: &'static str;
    const RULE: &'static str;
    type Case: Serialize + DeserializeOwned + Debug + Clone + Send + 'static;
    fn strategy(tier: Tier) -> BoxedStrategy<Self::Case>;
    /// number of generated cases (total, split over the workers)
    fn cases(tier: Tier) -> u32;
    /// small-scope exhaustive slice; must partition by `worker`/`workers`
    fn exhaustive(
        _tier: Tier,
        _worker: usize,
        _workers: usize,
    ) -> Box<dyn Iterator<Item = Self::Case>> {
        Box::new(std::iter::empty())
    }
    fn run(case: &Self::Case) -> Outcome;
    /// profiles used in the quick tier (thorough always runs both)
    fn quick_profiles() -> &'static [&'static str] {
        &["checked"]
    }
    fn assumptions() -> Vec<String>;
    fn max_shrink_iters() -> u32 {
        2000
    }
}

// ------------------------------------------------------------------------------------
// fresh-thread execution with the select! seed index made visible

static SELECT_INDEX: AtomicUsize = AtomicUsize::new(0);

/// Run `f` on a fresh thread whose first action initialises `futures::select!`'s
/// thread-local generator. Returns the result and the index (0-based) this thread
/// received from futures' process-global seed counter.
pub fn on_fresh_thread<R: Send + 'static>(f: impl FnOnce() -> R + Send + 'static) -> (R, usize) {
    let idx = SELECT_INDEX.fetch_add(1, Ordering::SeqCst);
    let h = std::thread::Builder::new()
        .stack_size(512 << 20)
        .spawn(move || {
            crate::exec::touch_select_rng();
            f()
        })
        .expect("spawn case thread");
    match h.join() {
        Ok(r) => (r, idx),
        Err(_) => {
            eprintln!("harness bug: case thread panicked outside a guarded poll");
            std::process::exit(2);
        }
    }
}

/// Like `on_fresh_thread`, but gives up after `secs` seconds: `Err(select index)`. The case thread
/// cannot be stopped (it is inside a loop that never yields, or just far too slow); the caller must
/// end the process. A timeout is never a verdict.
pub fn on_fresh_thread_timeout<R: Send + 'static>(secs: u64, f: impl FnOnce() -> R + Send + 'static) -> Result<(R, usize), usize> {
    let idx = SELECT_INDEX.fetch_add(1, Ordering::SeqCst);
    let (tx, rx) = std::sync::mpsc::channel();
    let h = std::thread::Builder::new()
        .stack_size(512 << 20)
        .spawn(move || {
            crate::exec::touch_select_rng();
            let r = f();
            let _ = tx.send(r);
        })
        .expect("spawn case thread");
    match rx.recv_timeout(std::time::Duration::from_secs(secs)) {
        Ok(r) => {
            let _ = h.join();
            Ok((r, idx))
        }
        Err(std::sync::mpsc::RecvTimeoutError::Timeout) => Err(idx),
        Err(std::sync::mpsc::RecvTimeoutError::Disconnected) => {
            eprintln!("harness bug: case thread panicked outside a guarded poll");
            std::process::exit(2);
        }
    }
}

/// Advance the seed counter to `idx` (replay).
pub fn burn_select_indices(idx: usize) {
    while SELECT_INDEX.load(Ordering::SeqCst) < idx {
        on_fresh_thread(|| ());
    }
}

pub fn current_select_index() -> usize {
    SELECT_INDEX.load(Ordering::SeqCst)
}

// ------------------------------------------------------------------------------------

pub fn case_hash<C: Serialize>(c: &C) -> u64 {
    let s = serde_json::to_string(c).unwrap();
    let mut h = std::collections::hash_map::DefaultHasher::new();
    s.hash(&mut h);
    h.finish()
}

fn mix(seed: u64, id: &str, worker: usize) -> [u8; 32] {
    let mut out = [0u8; 32];
    let mut x = seed
        .wrapping_mul(0x9e37_79b9_7f4a_7c15)
        .wrapping_add(worker as u64 + 1);
    for b in id.bytes() {
        x = (x ^ b as u64).wrapping_mul(0x100_0000_01b3);
    }
    for chunk in out.chunks_mut(8) {
        x ^= x >> 30;
        x = x.wrapping_mul(0xbf58_476d_1ce4_e5b9);
        x ^= x >> 27;
        x = x.wrapping_mul(0x94d0_49bb_1331_11eb);
        x ^= x >> 31;
        chunk.copy_from_slice(&x.to_le_bytes());
    }
    out
}

#[derive(Clone, Debug, Serialize, Deserialize)]
pub struct ReplayFile {
    pub property: String,
    pub profile: String,
    pub select_index: usize,
    pub sig: String,
    pub msg: String,
    pub case: serde_json::Value,
}

#[derive(Clone, Debug, Serialize, Deserialize)]
pub struct KnownFinding {
    pub property: String,
    pub id: String,
    /// "open" or "fixed"
    pub status: String,
    #[serde(default)]
    pub commit: Option<String>,
    pub signature: String,
    pub what: String,
    #[serde(default)]
    pub probe: Option<serde_json::Value>,
}

pub fn load_known(path: &str) -> Vec<KnownFinding> {
    match std::fs::read_to_string(path) {
        Ok(s) => serde_json::from_str(&s).unwrap_or_else(|e| {
            eprintln!("cannot parse {path}: {e}");
            std::process::exit(2)
        }),
        Err(_) => vec![],
    }
}

#[derive(Clone, Debug, Serialize, Deserialize, Default)]
pub struct WorkerReport {
    pub profile: String,
    pub worker: usize,
    pub evaluations: u64,
    pub generated: u64,
    pub exhaustive: u64,
    pub regress: u64,
    pub nontrivial_hashes: Vec<u64>,
    pub classes: BTreeMap<String, u64>,
    pub excluded: BTreeMap<String, u64>,
    pub known_hits: BTreeMap<String, u64>,
    pub samples: Vec<serde_json::Value>,
    pub violations: Vec<ReplayFile>,
    pub wall_s: f64,
    pub exhaustive_complete: bool,
}

struct Acc {
    rep: WorkerReport,
    nontrivial: BTreeSet<u64>,
    frozen: bool,
    last_fail: Option<(serde_json::Value, usize, Failure)>,
}

impl Acc {
    fn record<C: Serialize>(&mut self, case: &C, out: &Outcome, kind: u8) {
        if self.frozen {
            return;
        }
        self.rep.evaluations += 1;
        match kind {
            0 => self.rep.generated += 1,
            1 => self.rep.exhaustive += 1,
            _ => self.rep.regress += 1,
        }
        for c in &out.classes {
            *self.rep.classes.entry(c.clone()).or_insert(0) += 1;
        }
        for c in &out.excluded {
            *self.rep.excluded.entry(c.clone()).or_insert(0) += 1;
        }
        if out.nontrivial {
            let h = case_hash(case);
            if self.nontrivial.insert(h) && self.rep.samples.len() < 3 {
                self.rep.samples.push(serde_json::to_value(case).unwrap());
            }
        }
    }
}

pub struct WorkerArgs {
    pub tier: Tier,
    pub seed: u64,
    pub worker: usize,
    pub workers: usize,
    pub profile: String,
    pub known: Vec<KnownFinding>,
    pub regress_dir: String,
    pub replay_dir: String,
}

fn tolerated<'a>(known: &'a [KnownFinding], id: &str, f: &Failure) -> Option<&'a KnownFinding> {
    known
        .iter()
        .find(|k| k.property == id && k.status == "open" && k.signature == f.sig)
}

fn write_replay(dir: &str, rf: &ReplayFile) -> String {
    let _ = std::fs::create_dir_all(dir);
    let body = serde_json::to_string_pretty(rf).unwrap();
    let mut h = std::collections::hash_map::DefaultHasher::new();
    body.hash(&mut h);
    let path = format!("{dir}/{}-{:016x}.json", rf.profile, h.finish());
    std::fs::write(&path, body).expect("write replay file");
    path
}

/// Runs one worker's share of a property's campaign.
pub fn run_worker<P: Property>(a: &WorkerArgs) -> WorkerReport {
    let t0 = Instant::now();
    let acc = RefCell::new(Acc {
        rep: WorkerReport {
            profile: a.profile.clone(),
            worker: a.worker,
            exhaustive_complete: true,
            ..Default::default()
        },
        nontrivial: BTreeSet::new(),
        frozen: false,
        last_fail: None,
    });

    // per-case watchdog: wall-clock, so only ever "inconclusive" (exit code 3, which the parent turns
    // into exit 2), with the case written out so that it can be looked at
    let case_timeout: u64 = std::env::var("VERIF_CASE_TIMEOUT_SECS").ok().and_then(|s| s.parse().ok()).unwrap_or(match a.tier {
        Tier::Quick => 180,
        Tier::Thorough => 2400,
    });
    let run_case = |case: &P::Case| -> (Outcome, usize) {
        let c = case.clone();
        match on_fresh_thread_timeout(case_timeout, move || P::run(&c)) {
            Ok(r) => r,
            Err(idx) => {
                let rf = ReplayFile {
                    property: P::ID.to_string(),
                    profile: a.profile.clone(),
                    select_index: idx,
                    sig: "HANG/case-did-not-finish".into(),
                    msg: format!("the case was still running after {case_timeout} s: a loop inside the library that never yields, or far too slow; no verdict"),
                    case: serde_json::to_value(case).unwrap(),
                };
                let path = write_replay(&a.replay_dir, &rf);
                eprintln!("INCONCLUSIVE property={} case still running after {case_timeout} s (stuck inside one poll?) case={}", P::ID, path);
                std::process::exit(3);
            }
        }
    };

    let violation = |acc: &RefCell<Acc>, case_json: serde_json::Value, idx: usize, f: &Failure| {
        let rf = ReplayFile {
            property: P::ID.to_string(),
            profile: a.profile.clone(),
            select_index: idx,
            sig: f.sig.clone(),
            msg: f.msg.clone(),
            case: case_json,
        };
        let path = write_replay(&a.replay_dir, &rf);
        let mut rf2 = rf;
        rf2.msg = format!("{} [replay={}]", rf2.msg, path);
        acc.borrow_mut().rep.violations.push(rf2);
    };

    // (1) regress tier: committed shrunk failures must pass (worker 0 only)
    if a.worker == 0 {
        let mut files: Vec<_> = std::fs::read_dir(&a.regress_dir)
            .map(|d| d.filter_map(|e| e.ok()).map(|e| e.path()).collect())
            .unwrap_or_else(|_| vec![]);
        files.sort();
        for f in files {
            if f.extension().and_then(|e| e.to_str()) != Some("json") {
                continue;
            }
            let txt = std::fs::read_to_string(&f).unwrap();
            let rf: ReplayFile = match serde_json::from_str(&txt) {
                Ok(r) => r,
                Err(e) => {
                    eprintln!("bad regress file {}: {e}", f.display());
                    std::process::exit(2);
                }
            };
            let case: P::Case = match serde_json::from_value(rf.case.clone()) {
                Ok(c) => c,
                Err(e) => {
                    eprintln!("regress file {} does not match the case type: {e}", f.display());
                    std::process::exit(2);
                }
            };
            let (out, idx) = run_case(&case);
            acc.borrow_mut().record(&case, &out, 2);
            if let Some(fl) = &out.fail {
                if let Some(k) = tolerated(&a.known, P::ID, fl) {
                    *acc.borrow_mut().rep.known_hits.entry(k.id.clone()).or_insert(0) += 1;
                } else {
                    violation(&acc, rf.case.clone(), idx, fl);
                }
            }
        }
        // probes of open known findings: still failing => reported as KNOWN-FINDING
        for k in a.known.iter().filter(|k| k.property == P::ID && k.status == "open") {
            if let Some(p) = &k.probe {
                if let Ok(case) = serde_json::from_value::<P::Case>(p.clone()) {
                    let (out, idx) = run_case(&case);
                    acc.borrow_mut().record(&case, &out, 2);
                    match &out.fail {
                        Some(fl) if fl.sig == k.signature => {
                            *acc.borrow_mut().rep.known_hits.entry(k.id.clone()).or_insert(0) += 1;
                        }
                        Some(fl) => violation(&acc, p.clone(), idx, fl),
                        None => {}
                    }
                }
            }
        }
    }

    // (2) exhaustive slice
    if acc.borrow().rep.violations.is_empty() {
        for case in P::exhaustive(a.tier, a.worker, a.workers) {
            let (out, idx) = run_case(&case);
            acc.borrow_mut().record(&case, &out, 1);
            if let Some(fl) = &out.fail {
                if let Some(k) = tolerated(&a.known, P::ID, fl) {
                    *acc.borrow_mut().rep.known_hits.entry(k.id.clone()).or_insert(0) += 1;
                } else {
                    violation(&acc, serde_json::to_value(&case).unwrap(), idx, fl);
                    acc.borrow_mut().rep.exhaustive_complete = false;
                    break;
                }
            }
        }
    }

    // (3) generated campaign with shrinking
    if acc.borrow().rep.violations.is_empty() {
        let total = P::cases(a.tier) as usize;
        let share = total / a.workers + usize::from(a.worker < total % a.workers);
        if share > 0 {
            let cfg = Config {
                cases: share as u32,
                failure_persistence: None,
                rng_seed: RngSeed::Fixed(u64::from_le_bytes(
                    mix(a.seed, P::ID, a.worker)[..8].try_into().unwrap(),
                )),
                max_shrink_iters: P::max_shrink_iters(),
                // bounds only how small the reported counterexample gets, never the verdict
                max_shrink_time: 20_000,
                max_global_rejects: 1_000_000,
                ..Config::default()
            };
            let mut runner = TestRunner::new(cfg);
            let strat = P::strategy(a.tier);
            let res = runner.run(&strat, |case| {
                let (out, idx) = run_case(&case);
                acc.borrow_mut().record(&case, &out, 0);
                if let Some(fl) = &out.fail {
                    if let Some(k) = tolerated(&a.known, P::ID, fl) {
                        let mut b = acc.borrow_mut();
                        if !b.frozen {
                            *b.rep.known_hits.entry(k.id.clone()).or_insert(0) += 1;
                        }
                        return Ok(());
                    }
                    let mut b = acc.borrow_mut();
                    b.frozen = true; // stop counting: proptest now shrinks
                    b.last_fail = Some((serde_json::to_value(&case).unwrap(), idx, fl.clone()));
                    return Err(TestCaseError::fail(fl.sig.clone()));
                }
                Ok(())
            });
            match res {
                Ok(()) => {}
                Err(TestError::Fail(_, minimal)) => {
                    // re-run the minimal case to obtain its own index/signature
                    let (out, idx) = run_case(&minimal);
                    let mj = serde_json::to_value(&minimal).unwrap();
                    match out.fail {
                        Some(fl) if tolerated(&a.known, P::ID, &fl).is_none() => {
                            violation(&acc, mj, idx, &fl)
                        }
                        _ => {
                            // schedule-dependent: fall back to the last failing run
                            let lf = acc.borrow_mut().last_fail.take();
                            if let Some((cj, i, fl)) = lf {
                                violation(&acc, cj, i, &fl);
                            }
                        }
                    }
                }
                Err(TestError::Abort(r)) => {
                    eprintln!("proptest aborted ({}): {r}", P::ID);
                    std::process::exit(2);
                }
            }
        }
    }

    let mut b = acc.into_inner();
    b.rep.nontrivial_hashes = b.nontrivial.into_iter().collect();
    b.rep.wall_s = t0.elapsed().as_secs_f64();
    b.rep
}

/// Replays one file; returns the failure if it still fails.
pub fn replay<P: Property>(rf: &ReplayFile) -> Option<Failure> {
    let case: P::Case = serde_json::from_value(rf.case.clone()).unwrap_or_else(|e| {
        eprintln!("replay file does not match {}'s case type: {e}", P::ID);
        std::process::exit(2)
    });
    burn_select_indices(rf.select_index);
    let secs: u64 = std::env::var("VERIF_CASE_TIMEOUT_SECS").ok().and_then(|s| s.parse().ok()).unwrap_or(2400);
    match on_fresh_thread_timeout(secs, move || P::run(&case)) {
        Ok((out, _)) => out.fail,
        Err(_) => {
            eprintln!("INCONCLUSIVE property={} the replayed case was still running after {secs} s (stuck inside one poll?)", P::ID);
            std::process::exit(2)
        }
    }
}

/// Draw `n` sample cases (for debugging generators / distributions).
pub fn sample_cases<P: Property>(tier: Tier, seed: u64, n: usize) -> Vec<P::Case> {
    let cfg = Config {
        failure_persistence: None,
        rng_seed: RngSeed::Fixed(seed),
        ..Config::default()
    };
    let mut runner = TestRunner::new(cfg);
    let s = P::strategy(tier);
    (0..n)
        .map(|_| s.new_tree(&mut runner).unwrap().current())
        .collect()
}
