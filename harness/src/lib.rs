//! Verification harness for Chylynsky/poster-rs: property-based testing and fuzzing.
pub mod api;
pub mod driver;
pub mod exec;
pub mod fuzzing;
pub mod gen;
pub mod mockio;
pub mod props;
pub mod refcodec;
pub mod sim;
pub mod world;
