pub fn x(){}
