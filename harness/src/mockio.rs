//! Scripted transport: an `AsyncRead` and an `AsyncWrite` whose every boundary, delay
//! and fault is chosen by the test script. Single-threaded (`Rc<RefCell<..>>`).

use futures::io::{AsyncRead, AsyncWrite};
use std::cell::RefCell;
use std::collections::VecDeque;
use std::io;
use std::pin::Pin;
use std::rc::Rc;
use std::task::{Context, Poll, Waker};

#[derive(Default)]
pub struct ReaderState {
    /// chunks still to be delivered; one poll_read returns at most the rest of the front chunk
    pub chunks: VecDeque<Vec<u8>>,
    pub front_off: usize,
    pub eof: bool,
    pub err: bool,
    /// per-call cap on the number of bytes returned (0 = none)
    pub cap: usize,
    /// return Pending once (self-waking) before each delivery
    pub yield_first: bool,
    yielded: bool,
    pub waker: Option<Waker>,
    pub offered: usize,
    pub consumed: usize,
    pub reads: usize,
    /// number of poll_read calls that returned Pending
    pub pendings: usize,
    /// the fault (eof / err) has been reported to the caller
    pub fault_reported: bool,
    /// sizes of the buffers the library offered
    pub max_buf_seen: usize,
    /// a zero-length buffer was offered to poll_read
    pub zero_len_reads: usize,
    /// how often the end / failure of the transport has been reported
    pub fault_reads: usize,
    /// see `set_err_once`
    pub err_once: Option<io::ErrorKind>,
}

/// see `fault_reads`
pub const SPIN_LIMIT: usize = 20_000;

#[derive(Clone, Default)]
pub struct MockReader(pub Rc<RefCell<ReaderState>>);

impl MockReader {
    pub fn new() -> Self {
        Self::default()
    }
    pub fn feed(&self, chunk: Vec<u8>) {
        if chunk.is_empty() {
            return;
        }
        let mut s = self.0.borrow_mut();
        s.offered += chunk.len();
        s.chunks.push_back(chunk);
        if let Some(w) = s.waker.take() {
            drop(s);
            w.wake();
        }
    }
    pub fn feed_chunks(&self, chunks: Vec<Vec<u8>>) {
        for c in chunks {
            self.feed(c);
        }
    }
    pub fn set_eof(&self) {
        let mut s = self.0.borrow_mut();
        s.eof = true;
        if let Some(w) = s.waker.take() {
            drop(s);
            w.wake();
        }
    }
    /// one transient fault: the next read that finds no data returns an error of this kind once;
    /// afterwards the reader goes on as before
    pub fn set_err_once(&self, kind: io::ErrorKind) {
        let mut s = self.0.borrow_mut();
        s.err_once = Some(kind);
        if let Some(w) = s.waker.take() {
            drop(s);
            w.wake();
        }
    }
    pub fn set_err(&self) {
        let mut s = self.0.borrow_mut();
        s.err = true;
        if let Some(w) = s.waker.take() {
            drop(s);
            w.wake();
        }
    }
    pub fn unread(&self) -> usize {
        let s = self.0.borrow();
        s.offered - s.consumed
    }
    pub fn fault_pending(&self) -> bool {
        let s = self.0.borrow();
        (s.eof || s.err) && !s.fault_reported
    }
    pub fn has_waker(&self) -> bool {
        self.0.borrow().waker.is_some()
    }
}

impl AsyncRead for MockReader {
    fn poll_read(
        self: Pin<&mut Self>,
        cx: &mut Context<'_>,
        buf: &mut [u8],
    ) -> Poll<io::Result<usize>> {
        let mut s = self.0.borrow_mut();
        s.reads += 1;
        s.max_buf_seen = s.max_buf_seen.max(buf.len());
        if buf.is_empty() {
            s.zero_len_reads += 1;
            return Poll::Ready(Ok(0));
        }
        if s.chunks.is_empty() {
            if let Some(k) = s.err_once.take() {
                s.fault_reported = true;
                return Poll::Ready(Err(io::Error::new(k, "mock (transient)")));
            }
            if s.err || s.eof {
                s.fault_reported = true;
                s.fault_reads += 1;
                // a caller that keeps reading in a loop that never yields cannot be stopped by the
                // poll budget; this count is deterministic (no clock involved)
                if s.fault_reads > SPIN_LIMIT {
                    s.fault_reads = 0;
                    drop(s);
                    panic!("VERIF-SPIN the end/failure of the transport was reported {SPIN_LIMIT} times and the caller keeps reading");
                }
                if s.err {
                    // which error: a function of how much was delivered before it (part of the
                    // case, no extra randomness). `WouldBlock` is left out: returning it as
                    // `Ready(Err(..))` would itself break the AsyncRead contract.
                    const KINDS: [io::ErrorKind; 7] = [
                        io::ErrorKind::ConnectionReset,
                        io::ErrorKind::Interrupted,
                        io::ErrorKind::UnexpectedEof,
                        io::ErrorKind::TimedOut,
                        io::ErrorKind::ConnectionAborted,
                        io::ErrorKind::Other,
                        io::ErrorKind::BrokenPipe,
                    ];
                    return Poll::Ready(Err(io::Error::new(KINDS[s.consumed % KINDS.len()], "mock")));
                }
                return Poll::Ready(Ok(0));
            }
            s.waker = Some(cx.waker().clone());
            s.pendings += 1;
            return Poll::Pending;
        }
        if s.yield_first && !s.yielded {
            s.yielded = true;
            s.pendings += 1;
            cx.waker().wake_by_ref();
            return Poll::Pending;
        }
        s.yielded = false;
        let off = s.front_off;
        let avail = s.chunks.front().unwrap().len() - off;
        let mut n = avail.min(buf.len());
        if s.cap > 0 {
            n = n.min(s.cap);
        }
        buf[..n].copy_from_slice(&s.chunks.front().unwrap()[off..off + n]);
        s.front_off += n;
        if s.front_off == s.chunks.front().unwrap().len() {
            s.chunks.pop_front();
            s.front_off = 0;
        }
        s.consumed += n;
        Poll::Ready(Ok(n))
    }
}

#[derive(Clone, Debug, PartialEq, Eq)]
pub enum WriteFault {
    None,
    /// `Err` once this many bytes have been accepted in total
    ErrAt(usize),
    /// `Ok(0)` once this many bytes have been accepted in total
    ZeroAt(usize),
}

pub struct WriterState {
    pub data: Vec<u8>,
    /// max bytes accepted per call (0 = everything)
    pub per_call: usize,
    /// credit: number of bytes that may still be accepted before returning Pending;
    /// None = unlimited
    pub credit: Option<usize>,
    pub fault: WriteFault,
    pub fault_reported: bool,
    pub fault_writes: usize,
    pub close_waker: Option<Waker>,
    pub waker: Option<Waker>,
    pub writes: usize,
    pub pendings: usize,
    /// (step, total length after the write) — lets the script attribute bytes to steps
    pub marks: Vec<(usize, usize)>,
    pub step: usize,
    pub flushes: usize,
    pub closes: usize,
}

impl Default for WriterState {
    fn default() -> Self {
        Self {
            data: Vec::new(),
            per_call: 0,
            credit: None,
            fault: WriteFault::None,
            fault_reported: false,
            fault_writes: 0,
            close_waker: None,
            waker: None,
            writes: 0,
            pendings: 0,
            marks: Vec::new(),
            step: 0,
            flushes: 0,
            closes: 0,
        }
    }
}

#[derive(Clone, Default)]
pub struct MockWriter(pub Rc<RefCell<WriterState>>);

impl MockWriter {
    pub fn new() -> Self {
        Self::default()
    }
    pub fn len(&self) -> usize {
        self.0.borrow().data.len()
    }
    pub fn data(&self) -> Vec<u8> {
        self.0.borrow().data.clone()
    }
    pub fn set_step(&self, step: usize) {
        self.0.borrow_mut().step = step;
    }
    /// Allow `n` more bytes (back-pressure release) and wake a blocked writer.
    pub fn grant(&self, n: usize) {
        let mut s = self.0.borrow_mut();
        s.credit = Some(s.credit.unwrap_or(0) + n);
        if let Some(w) = s.waker.take() {
            drop(s);
            w.wake();
        }
    }
    pub fn unlimited(&self) {
        let mut s = self.0.borrow_mut();
        s.credit = None;
        if let Some(w) = s.waker.take() {
            drop(s);
            w.wake();
        }
    }
    pub fn blocked(&self) -> bool {
        self.0.borrow().waker.is_some()
    }
    pub fn set_fault(&self, f: WriteFault) {
        let mut s = self.0.borrow_mut();
        s.fault = f;
        if let Some(w) = s.waker.take() {
            drop(s);
            w.wake();
        }
    }
    pub fn fault_pending(&self) -> bool {
        let s = self.0.borrow();
        s.fault != WriteFault::None && !s.fault_reported
    }
}

impl AsyncWrite for MockWriter {
    fn poll_write(
        self: Pin<&mut Self>,
        cx: &mut Context<'_>,
        buf: &[u8],
    ) -> Poll<io::Result<usize>> {
        let mut s = self.0.borrow_mut();
        s.writes += 1;
        if buf.is_empty() {
            return Poll::Ready(Ok(0));
        }
        let total = s.data.len();
        let mut n = buf.len();
        match s.fault {
            WriteFault::ErrAt(at) => {
                if total >= at {
                    s.fault_reported = true;
                    s.fault_writes += 1;
                    if s.fault_writes > SPIN_LIMIT {
                        s.fault_writes = 0;
                        drop(s);
                        panic!("VERIF-SPIN the failure of the transport was reported {SPIN_LIMIT} times and the caller keeps writing");
                    }
                    const KINDS: [io::ErrorKind; 6] = [
                        io::ErrorKind::BrokenPipe,
                        io::ErrorKind::Interrupted,
                        io::ErrorKind::ConnectionReset,
                        io::ErrorKind::TimedOut,
                        io::ErrorKind::WriteZero,
                        io::ErrorKind::Other,
                    ];
                    return Poll::Ready(Err(io::Error::new(KINDS[total % KINDS.len()], "mock")));
                }
                n = n.min(at - total);
            }
            WriteFault::ZeroAt(at) => {
                if total >= at {
                    s.fault_reported = true;
                    s.fault_writes += 1;
                    if s.fault_writes > SPIN_LIMIT {
                        s.fault_writes = 0;
                        drop(s);
                        panic!("VERIF-SPIN a closed transport (write returns 0) was reported {SPIN_LIMIT} times and the caller keeps writing");
                    }
                    return Poll::Ready(Ok(0));
                }
                n = n.min(at - total);
            }
            WriteFault::None => {}
        }
        if let Some(c) = s.credit {
            if c == 0 {
                s.waker = Some(cx.waker().clone());
                s.pendings += 1;
                return Poll::Pending;
            }
            n = n.min(c);
        }
        if s.per_call > 0 {
            n = n.min(s.per_call);
        }
        s.data.extend_from_slice(&buf[..n]);
        if let Some(c) = s.credit.as_mut() {
            *c -= n;
        }
        let step = s.step;
        let len = s.data.len();
        s.marks.push((step, len));
        Poll::Ready(Ok(n))
    }

    fn poll_flush(self: Pin<&mut Self>, _cx: &mut Context<'_>) -> Poll<io::Result<()>> {
        self.0.borrow_mut().flushes += 1;
        Poll::Ready(Ok(()))
    }

    /// Shutting the write half down is not something any listed outcome may depend on (the peer
    /// may already be gone): by the number of bytes written so far it succeeds, fails, or never
    /// completes (a waker is kept and never fired).
    fn poll_close(self: Pin<&mut Self>, cx: &mut Context<'_>) -> Poll<io::Result<()>> {
        let mut s = self.0.borrow_mut();
        s.closes += 1;
        match s.data.len() % 3 {
            0 => Poll::Ready(Ok(())),
            1 => Poll::Ready(Err(io::Error::new(io::ErrorKind::BrokenPipe, "mock: close"))),
            _ => {
                s.close_waker = Some(cx.waker().clone());
                Poll::Pending
            }
        }
    }
}
