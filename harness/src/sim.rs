//! Scenario interpreter + reference model of the client session.
//!
//! A `Scenario` is a history of client operations, broker packets, scheduling and
//! fault events. `run` executes it against a fresh `World`, maintains the reference
//! model in lock-step, and returns every discrepancy tagged with the property whose
//! statement it contradicts ("C05/...", "C08/..."), plus per-source projections of
//! everything observable (used by the metamorphic properties C03/C16).

use crate::api::*;
use crate::driver::Failure;
use crate::gen::ChunkPlan;
use crate::mockio::WriteFault;
use crate::props::common::*;
use crate::refcodec as rc;
use crate::world::*;
use serde::{Deserialize, Serialize};
use std::collections::BTreeSet;

#[derive(Clone, Copy, Debug, PartialEq, Eq, Serialize, Deserialize)]
pub enum OpKind {
    Pub0,
    Pub1,
    Pub2,
    Sub(u8),
    Unsub(u8),
    Ping,
    /// the user's DISCONNECT (created by `Terminate(UserDisconnect)`, never by `Start`)
    Disconnect,
}

#[derive(Clone, Copy, Debug, PartialEq, Eq, Serialize, Deserialize)]
pub enum Target {
    /// no subscription identifier in the PUBLISH
    None,
    /// identifier of the sel-th subscribe() whose SUBSCRIBE reached the wire
    Sub(u16),
    /// two identifiers (two distinct subscriptions when available)
    Two(u16, u16),
    /// an identifier no subscribe() ever used
    Unknown,
    /// the identifiers of ALL subscriptions on the wire, in registration order / reversed
    All,
    AllReversed,
}

/// Acknowledgement decoration (unique per ack thanks to the op index added by the sim).
#[derive(Clone, Copy, Debug, PartialEq, Eq, Serialize, Deserialize, Default)]
pub struct Deco {
    /// index into the reason table of the acknowledgement type
    pub reason: u8,
    pub reason_string: bool,
    pub user_props: u8,
    pub short: bool,
}

#[derive(Clone, Debug, PartialEq, Eq, Serialize, Deserialize)]
pub enum Inbound {
    /// acknowledge the sel-th ackable operation (current phase)
    Ack { sel: u16, deco: Deco },
    Publish {
        qos: u8,
        dup: bool,
        retain: bool,
        /// packet identifier selector: 0 = fresh unique identifier, n>0 = identifier n
        pid: u16,
        target: Target,
        payload_len: u16,
        /// optional properties: bit 0 payload format indicator = 1 (the payload is binary
        /// all the same: the client must pass it on), bit 1 = 0, bit 2 message expiry, bit 3
        /// content type, bit 4 response topic + correlation data, bit 5 empty payload
        #[serde(default)]
        props: u8,
    },
    Pubrel { pid: u16, known: bool },
    /// a QoS 0 PUBLISH to the first subscription with a payload of `kib` KiB (remaining
    /// length widths of 3 and 4 bytes)
    BigPublish { kib: u16 },
}

#[derive(Clone, Debug, PartialEq, Eq, Serialize, Deserialize)]
pub enum Cause {
    UserDisconnect(DisconnectSpec),
    ServerDisconnect(rc::Disconnect, bool),
    Eof,
    ReadErr,
    /// the write side fails (Err) / accepts nothing (Ok(0)) from now on
    WriteErr,
    WriteZero,
    DropAllHandles,
    /// undecodable input
    Garbage(Vec<u8>),
}

#[derive(Clone, Debug, PartialEq, Eq, Serialize, Deserialize)]
pub enum Ev {
    Start {
        h: u8,
        kind: OpKind,
        /// run to quiescence right after the start and judge the accept/refuse decision
        /// exactly (always the case under auto_settle)
        #[serde(default)]
        settle: bool,
        /// with `settle`: only this operation's future and the context are polled before the
        /// verdict (other woken futures stay unpolled), then everything settles
        #[serde(default)]
        solo: bool,
    },
    CloneHandle,
    DropHandle { sel: u16 },
    /// cancel the sel-th pending operation
    DropOp { sel: u16 },
    /// call stream() on the sel-th completed subscribe that has none yet
    MakeStream { sel: u16 },
    DropStream { sel: u16 },
    PollStream { sel: u16 },
    In(Inbound),
    /// several inbound packets as one byte stream cut by `plan`
    Burst {
        items: Vec<Inbound>,
        plan: ChunkPlan,
        settle_between: bool,
    },
    // scheduling
    PollCtx,
    PollOp { sel: u16 },
    Settle,
    /// poll every live task whether woken or not
    Sweep,
    // termination / teardown
    Terminate(Cause),
    DropCtx,
    /// at a quiescent point (everything settled, nothing half-written): drop the `run()` future,
    /// keep the Context and call `run()` again - what a caller does who races `ctx.run()` against
    /// something else in a `select!` loop. Nothing observable may change.
    ReenterRun,
    /// `n` acknowledged QoS 1 publishes that are not part of the history proper: moves the packet
    /// identifier counter on (a whole lap with n = 65 534)
    AdvanceIdentifiers { n: u32 },
}

#[derive(Clone, Debug, PartialEq, Eq, Serialize, Deserialize, Default)]
pub struct Scenario {
    pub receive_max: Option<u16>,
    /// Maximum Packet Size announced in CONNACK (the scenario's own operations stay
    /// far below 200 bytes; only a user DISCONNECT may exceed it)
    #[serde(default)]
    pub max_packet_size: Option<u32>,
    /// packet identifiers consumed (by acknowledged publishes) before the history starts:
    /// moves the history's identifiers beyond 255 or across the 16-bit wrap-around
    #[serde(default)]
    pub id_offset: u32,
    /// variation of the connection prologue that no property depends on (see
    /// `connect_and_run_v`): Session Present, unrelated CONNACK properties and their order,
    /// CONNACK through an AUTH exchange, client-side CONNECT options
    #[serde(default)]
    pub prologue: u8,
    pub events: Vec<Ev>,
}

#[derive(Clone, Debug, PartialEq, Eq, Serialize, Deserialize)]
pub struct SimCfg {
    /// regime Q: settle (wake-only until quiescent) after every event
    pub auto_settle: bool,
    /// additionally poll every task after every event
    pub sweep_after_event: bool,
    /// chunk size used for single inbound packets (0 = whole)
    pub read_chunk: u16,
    pub write: WritePlan,
    /// streams are drained whenever woken during settle
    pub drain_streams: bool,
    /// at every quiescent point of the run check that a sweep changes nothing (C16)
    pub check_sweep_noop: bool,
    /// per-call cap of the mock reader (0 = none)
    pub read_cap: u16,
    /// the mock reader returns Pending once (self-waking) before each delivery
    pub read_yield: bool,
}

impl Default for SimCfg {
    fn default() -> Self {
        Self {
            auto_settle: true,
            sweep_after_event: false,
            read_chunk: 0,
            write: WritePlan::default(),
            drain_streams: false,
            check_sweep_noop: false,
            read_cap: 0,
            read_yield: false,
        }
    }
}

// -------------------------------------------------------------------------------------
// model

#[derive(Clone, Debug, PartialEq, Eq)]
enum AckKind {
    Puback,
    Pubrec,
    Pubcomp,
    Suback,
    Unsuback,
    Pingresp,
}

#[derive(Clone, Debug)]
struct FedAck {
    kind: AckKind,
    step: usize,
    reason: u8,
    /// context has been polled (while able to make progress) after this ack was fed
    ctx_polled_after: bool,
}

#[derive(Clone, Debug)]
struct MOp {
    kind: OpKind,
    acks: Vec<FedAck>,
    /// result the operation must report once its final ack is processed
    expected: Option<OpRes>,
    /// step at which the final acknowledgement was fed
    final_step: Option<usize>,
    dropped_step: Option<usize>,
    /// the model expects a local refusal
    expect_refused: Option<&'static str>,
    counted_in_quota: bool,
    quota_freed: bool,
    completion_checked: bool,
    /// the identifier on the wire has been compared with those of the other outstanding operations
    id_checked: bool,
    /// a PUBREL that follows a failing PUBREC has been answered (PUBCOMP 0x92), as a broker would
    stray_pubrel_answered: bool,
    /// a SUBSCRIBE whose length is within the subscription-identifier band of the server's
    /// Maximum Packet Size: a local size refusal is as acceptable as sending it
    size_unclear: bool,
}

#[derive(Clone, Debug, Default)]
struct MSub {
    /// messages that must come out of this subscription's stream, in order
    expected: Vec<MsgView>,
    /// the receiver side no longer exists (future cancelled before completion, or
    /// stream dropped): the library may discard
    receiver_gone: bool,
}

#[derive(Clone, Debug, Default, Serialize, Deserialize, PartialEq, Eq)]
pub struct Projections {
    /// per operation: names+ids of the packets it put on the wire, in order
    pub op_packets: Vec<Vec<String>>,
    pub op_results: Vec<Option<OpRes>>,
    /// acknowledgements written for inbound traffic, in order
    pub client_acks: Vec<(u8, u16)>,
    /// per stream (by subscribe op): items yielded
    pub stream_items: Vec<(usize, Vec<MsgView>)>,
    pub stream_ended: Vec<(usize, bool)>,
    pub run_result: Option<RunRes>,
    /// client packets no request accounts for (duplicates, strays) / not well-formed
    pub unattributed: usize,
    pub malformed: usize,
}

#[derive(Clone, Debug, Default)]
pub struct Stats {
    pub max_outstanding_ops: usize,
    pub ack_inversions: usize,
    pub kinds: BTreeSet<&'static str>,
    pub quota_exhausted: usize,
    pub quota_replenished_after_exhaustion: usize,
    pub freed_by: BTreeSet<&'static str>,
    pub qos2_completed: usize,
    pub failing_reasons: usize,
    pub live_subs_max: usize,
    pub msg_before_suback: usize,
    pub msg_before_stream: usize,
    pub msg_after_other_dropped: usize,
    pub msg_multi_id: usize,
    pub inbound_qos_gt0_unroutable: usize,
    pub redeliveries: usize,
    pub reuse_after_rel: usize,
    pub late_acks_for_dropped: usize,
    pub late_ack_while_other_outstanding: usize,
    pub dropped_ops: usize,
    pub dropped_streams: usize,
    pub cause_with_outstanding: bool,
    pub cause_with_stream: bool,
    pub phases_at_drop: BTreeSet<&'static str>,
    pub stream_buffered_at_drop: bool,
    pub spurious_polls: usize,
    pub split_packets: usize,
    pub multi_packet_reads: usize,
    pub completions: usize,
    pub events_applied: usize,
    pub events_skipped: usize,
    pub inexact_starts: usize,
    pub refused_for_size: usize,
    pub oversized_disconnect: bool,
}

pub struct SimOut {
    pub failures: Vec<Failure>,
    pub stats: Stats,
    pub proj: Projections,
}

impl SimOut {
    pub fn first_for(&self, prefix: &str) -> Option<Failure> {
        self.failures
            .iter()
            .find(|f| f.sig.starts_with(prefix) || f.sig.starts_with("HARNESS/"))
            .cloned()
    }
}

struct Sim<'a> {
    w: World,
    cfg: &'a SimCfg,
    tr: Tracker,
    mops: Vec<MOp>,
    msubs: Vec<Option<MSub>>, // indexed by op
    failures: Vec<Failure>,
    stats: Stats,
    r: u32,
    max_packet_size: Option<u32>,
    next_in_pid: u16,
    msg_counter: usize,
    awaiting_rel: BTreeSet<u16>,
    released: BTreeSet<u16>,
    expected_client_acks: Vec<(u8, u16)>,
    pings_fed: usize,
    terminated: Option<(Cause, usize)>,
    expected_run: Option<RunExpect>,
    ctx_dropped: bool,
    wire_len_at_disconnect: Option<usize>,
    last_ack_order: Vec<usize>,
    streams_dropped_any: bool,
    /// every handle slot is empty but pending operation futures still hold clones
    handles_dropped_pending: bool,
    /// operations are being issued before connect(): nothing can be handled yet, no verdict
    early_phase: bool,
}

#[derive(Clone, Debug)]
enum RunExpect {
    Ok,
    Disconnected(ErrSum),
    SocketClosed,
    HandleClosed,
    AnyErr,
}

fn idx(sel: u16, len: usize) -> Option<usize> {
    if len == 0 {
        None
    } else {
        Some(((sel as usize) * len) >> 16)
    }
}

fn reason_table(k: &AckKind) -> &'static [u8] {
    match k {
        AckKind::Puback => rc::PUBACK_REASONS,
        AckKind::Pubrec => rc::PUBREC_REASONS,
        AckKind::Pubcomp => rc::PUBCOMP_REASONS,
        AckKind::Suback => rc::SUBACK_REASONS,
        AckKind::Unsuback => rc::UNSUBACK_REASONS,
        AckKind::Pingresp => &[0],
    }
}

impl<'a> Sim<'a> {
    fn fail(&mut self, sig: impl Into<String>, msg: impl Into<String>) {
        let sig: String = sig.into();
        let msg: String = msg.into();
        // how a publish completes is C06's claim as much as C05's ("QoS 1 completes on its PUBACK,
        // QoS 2 ... on the PUBCOMP", "reason >= 0x80 makes publish() fail with the matching error")
        let alias = ["C05/wrong-completion/pub", "C05/not-completed/pub", "C05/completed-without-own-ack/pub"]
            .iter()
            .find(|p| sig.starts_with(**p))
            .map(|_| format!("C06/outcome/{}", &sig[4..]));
        // an abandoned QoS 2 publish still owes its PUBREL (C06: "QoS 2 sends exactly one PUBREL ...
        // after a PUBREC with reason < 0x80" - whether or not anybody still waits for the result)
        let alias = if sig == "C15/abandoned-qos2-exchange-never-finished" { Some("C06/pubrel-missing/abandoned-publish".to_string()) } else { alias };
        if self.failures.len() < 64 {
            self.failures.push(Failure { sig, msg: msg.clone() });
        }
        if let Some(a) = alias {
            if self.failures.len() < 64 && !self.failures.iter().any(|f| f.sig == a) {
                self.failures.push(Failure { sig: a, msg });
            }
        }
    }

    fn op_spec(&self, i: usize, kind: OpKind) -> OpSpec {
        match kind {
            OpKind::Pub0 => OpSpec::Publish(tagged_publish(i, 0)),
            OpKind::Pub1 => OpSpec::Publish(tagged_publish(i, 1)),
            OpKind::Pub2 => OpSpec::Publish(tagged_publish(i, 2)),
            OpKind::Sub(n) => OpSpec::Subscribe(tagged_subscribe(i, (n % 4) as usize + 1)),
            OpKind::Unsub(n) => OpSpec::Unsubscribe(tagged_unsubscribe(i, (n % 4) as usize + 1)),
            OpKind::Ping => OpSpec::Ping,
            OpKind::Disconnect => OpSpec::Disconnect(DisconnectSpec::default()),
        }
    }

    /// wire-derived number of QoS>0 PUBLISH packets not yet completed by a *fed* ack
    fn outstanding(&self) -> u32 {
        self.mops
            .iter()
            .filter(|m| m.counted_in_quota && !m.quota_freed)
            .count() as u32
    }

    fn after_activity(&mut self) {
        // attribute new wire packets, update model facts derived from the wire
        self.tr.update(&mut self.w);
        for i in 0..self.mops.len() {
            if self.tr.on_wire(i)
                && matches!(self.mops[i].kind, OpKind::Pub1 | OpKind::Pub2)
                && !self.mops[i].counted_in_quota
            {
                self.mops[i].counted_in_quota = true;
                if self.outstanding() > self.r {
                    let o = self.outstanding();
                    let r = self.r;
                    self.fail(
                        "C10/receive-maximum-exceeded",
                        format!("{o} QoS>0 PUBLISH packets outstanding on the wire, Receive Maximum is {r}"),
                    );
                }
            }
        }
        // a conformant broker answers a PUBREL it has no exchange for (here: one that follows its
        // own failing PUBREC) with PUBCOMP 0x92; whatever the client makes of that is its business
        for i in 0..self.mops.len() {
            if self.mops[i].kind != OpKind::Pub2 || self.mops[i].stray_pubrel_answered {
                continue;
            }
            let failing = self.mops[i].acks.first().map(|a| a.reason >= 0x80).unwrap_or(false);
            let pubrels = self.tr.map.get(i).and_then(|m| m.as_ref()).map(|m| m.pubrels).unwrap_or(0);
            if failing && pubrels > 0 && !self.ctx_dropped && self.terminated.is_none() {
                self.mops[i].stray_pubrel_answered = true;
                if let Some(pid) = self.tr.pid(i) {
                    let bytes = rc::encode(&rc::Packet::Pubcomp(rc::Ack { pid, reason: 0x92, ..Default::default() }), &rc::Form::canonical());
                    self.w.reader.feed(bytes);
                }
            }
        }
        // C11: the identifier of every request newly on the wire is non-zero and differs from
        // that of every other operation on the wire whose final acknowledgement has not been fed
        for i in 0..self.mops.len() {
            if self.mops[i].id_checked || !self.tr.on_wire(i) || !matches!(self.mops[i].kind, OpKind::Pub1 | OpKind::Pub2 | OpKind::Sub(_) | OpKind::Unsub(_)) {
                continue;
            }
            self.mops[i].id_checked = true;
            let Some(pid) = self.tr.pid(i) else { continue };
            if pid == 0 {
                self.fail("C11/packet-identifier-zero", format!("operation {i} ({}) is on the wire with packet identifier 0", kind_name(self.mops[i].kind)));
                continue;
            }
            let clash = (0..self.mops.len()).find(|j| {
                *j != i
                    && self.mops[*j].id_checked
                    && self.tr.on_wire(*j)
                    && self.tr.pid(*j) == Some(pid)
                    && self.mops[*j].final_step.is_none()
                    && matches!(self.mops[*j].kind, OpKind::Pub1 | OpKind::Pub2 | OpKind::Sub(_) | OpKind::Unsub(_))
            });
            if let Some(j) = clash {
                self.fail(
                    "C11/identifier-reused-while-outstanding",
                    format!(
                        "operation {i} ({}) went out with packet identifier {pid}, which operation {j} ({}) is still using (its final acknowledgement has not been sent)",
                        kind_name(self.mops[i].kind),
                        kind_name(self.mops[j].kind)
                    ),
                );
            }
            if let OpKind::Sub(_) = self.mops[i].kind {
                let sid = self.tr.sub_id(i);
                let dup = (0..self.mops.len()).find(|j| *j != i && matches!(self.mops[*j].kind, OpKind::Sub(_)) && self.tr.on_wire(*j) && self.tr.sub_id(*j) == sid);
                if sid.is_none() || dup.is_some() {
                    self.fail("C11/subscription-identifier-not-fresh", format!("subscribe {i} carries subscription identifier {sid:?} (also used by {dup:?})"));
                }
            }
        }
        let pending = (0..self.w.ops.len())
            .filter(|i| self.w.ops[*i].pending() && self.tr.on_wire(*i))
            .count();
        self.stats.max_outstanding_ops = self.stats.max_outstanding_ops.max(pending);
        if let Some(p) = self.w.panics.first().cloned() {
            if !self.failures.iter().any(|f| f.sig.starts_with("PANIC/")) {
                self.fail(format!("PANIC/{}", panic_sig(&p.1)), format!("panic in {}: {}", p.0, p.1));
            }
        }
    }

    fn mark_ctx_polled(&mut self) {
        // the context can only process input when it is not stuck on the writer; and if
        // run() returned during this poll, what it had not handled yet stays unhandled
        if self.w.writer.blocked() || !self.w.ctx_active() {
            return;
        }
        for m in self.mops.iter_mut() {
            for a in m.acks.iter_mut() {
                a.ctx_polled_after = true;
            }
        }
    }

    fn settle(&mut self) {
        let before = self.w.ctx_polls();
        settle(&mut self.w, &self.cfg.write, self.cfg.drain_streams);
        if self.w.ctx_polls() != before || !self.w.ctx_active() {
            self.mark_ctx_polled();
        }
        if self.w.budget_exhausted {
            self.fail("LIVELOCK/poll-budget", "poll budget exhausted (self-waking loop)");
        }
        self.after_activity();
        if self.cfg.check_sweep_noop && !self.ctx_dropped {
            let fp = self.w.fingerprint();
            let polls = self.w.total_polls;
            self.w.sweep(true);
            self.stats.spurious_polls += self.w.total_polls - polls;
            // a sweep may legitimately take items that were already buffered in a
            // stream the script had not polled: compare everything except stream items
            let fp2 = self.w.fingerprint();
            if (fp.0, fp.1, fp.2, fp.5) != (fp2.0, fp2.1, fp2.2, fp2.5) || (self.cfg.drain_streams && fp.3 != fp2.3) {
                self.fail(
                    "C16/sweep-at-quiescence-changed-state",
                    format!("polling non-woken tasks at a quiescent point changed (written, consumed, completions, stream items, ended streams, returned): {fp:?} -> {fp2:?}"),
                );
            }
            // whatever the sweep did must not have woken anything that then makes progress
            // unobserved: run the wake-only loop again
            settle(&mut self.w, &self.cfg.write, self.cfg.drain_streams);
            self.after_activity();
        }
    }

    fn after_event(&mut self) {
        if self.cfg.sweep_after_event && !self.ctx_dropped {
            let polls = self.w.total_polls;
            self.w.sweep(self.cfg.drain_streams);
            self.stats.spurious_polls += self.w.total_polls - polls;
            self.mark_ctx_polled();
        }
        if self.cfg.auto_settle {
            self.settle();
            self.check_quiescent();
        } else {
            self.after_activity();
        }
    }

    /// invariants that hold at every quiescent point
    fn check_quiescent(&mut self) {
        if self.ctx_dropped {
            return;
        }
        if self.handles_dropped_pending && self.terminated.is_none() && !self.w.ops.iter().any(|o| o.pending()) {
            // the last clone is gone now
            self.handles_dropped_pending = false;
            self.terminated = Some((Cause::DropAllHandles, self.w.step));
            self.expected_run = Some(RunExpect::HandleClosed);
            // the context notices on its next poll (the channel wakes it)
            settle(&mut self.w, &self.cfg.write, self.cfg.drain_streams);
        }
        // C03: everything the transport offered has been consumed while run() is alive
        if self.w.ctx_running() && self.w.reader.unread() > 0 && !self.w.writer.blocked() {
            let u = self.w.reader.unread();
            self.fail(
                "C03/stall/unread-input-at-quiescence",
                format!("{u} bytes offered by the transport are unread, run() is pending and no task is woken (lost wakeup)"),
            );
        }
        // premature end of run()
        if self.terminated.is_none() {
            if let Some(rr) = self.w.run_result.clone() {
                let has_dropped = self.mops.iter().any(|m| m.dropped_step.is_some()) || self.streams_dropped_any;
                let sig = if has_dropped {
                    "C15/run-returned-after-cancellation"
                } else {
                    "C13/run-returned-without-cause"
                };
                if !self.failures.iter().any(|f| f.sig == sig) {
                    self.fail(sig, format!("run() returned {rr:?} although no terminating cause has occurred"));
                }
            }
        }
        // operations whose final ack has been fed must be complete (regime Q)
        for i in 0..self.mops.len() {
            let m = &self.mops[i];
            if m.dropped_step.is_some() {
                continue;
            }
            if let (Some(exp), Some(_)) = (m.expected.clone(), m.final_step) {
                if self.w.run_result.is_some() {
                    continue;
                }
                match &self.w.ops[i].res {
                    Some(r) if *r == exp => {}
                    Some(r) => {
                        let r = r.clone();
                        let sig = format!("C05/wrong-completion/{}", kind_name(self.mops[i].kind));
                        if !self.failures.iter().any(|f| f.sig == sig) {
                            self.fail(sig, format!("operation {i} completed with {r:?}, its acknowledgement says {exp:?}"));
                        }
                    }
                    None => {
                        let sig = format!("C05/not-completed/{}", kind_name(self.mops[i].kind));
                        if !self.failures.iter().any(|f| f.sig == sig) {
                            self.fail(sig, format!("operation {i}: final acknowledgement fed and processed, future still pending at quiescence"));
                        }
                    }
                }
            }
        }
    }

    /// Called whenever an operation completes: check it was allowed to, and with what.
    fn on_completions(&mut self) {
        self.tr.update(&mut self.w);
        for i in 0..self.mops.len() {
            let done = self.w.ops[i].done_step;
            let res = self.w.ops[i].res.clone();
            let (Some(step), Some(res)) = (done, res) else { continue };
            if self.mops[i].completion_checked {
                continue; // examined when it happened
            }
            self.mops[i].completion_checked = true;
            self.stats.completions += 1;
            let m = self.mops[i].clone();
            if self.ctx_dropped || self.w.run_result.is_some() {
                continue; // teardown results are judged by C14/C13 checks
            }
            // local refusals
            if let OpRes::Err(ErrSum::QuotaExceeded) = res {
                // a refusal is judged in start(); but a refusal is only a refusal while nothing
                // of the request is on the wire
                if self.tr.on_wire(i) {
                    let k = kind_name(m.kind);
                    self.fail("C10/refused-but-written", format!("{k} {i} failed with QuotaExceeded although its PUBLISH is on the wire (acknowledgements fed so far: {})", m.acks.len()));
                    self.fail(
                        format!("C06/quota-refusal-after-publish-written/{k}"),
                        format!("{k} {i}: its PUBLISH was written, {} acknowledgement(s) were fed, and publish() reports the local refusal QuotaExceeded instead of the outcome of the handshake", m.acks.len()),
                    );
                    self.fail(format!("C05/wrong-completion/{k}"), format!("{k} {i} is on the wire and completed with QuotaExceeded"));
                }
                continue;
            }
            if m.size_unclear && res == OpRes::Err(ErrSum::MaximumPacketSizeExceeded) {
                // inside the subscription-identifier band: a refusal is as good as sending
                let step = self.w.step;
                self.mops[i].expected = Some(res.clone());
                self.mops[i].final_step = Some(step);
                continue;
            }
            match m.kind {
                OpKind::Pub0 => {
                    if m.expect_refused == Some("MaximumPacketSizeExceeded") {
                        // longer than the server's Maximum Packet Size: refused, nothing written
                        if res != OpRes::Err(ErrSum::MaximumPacketSizeExceeded) || self.tr.on_wire(i) {
                            self.fail("C12/oversized-not-refused/pub0", format!("QoS 0 publish {i} exceeds the Maximum Packet Size: result {res:?}, on wire: {}", self.tr.on_wire(i)));
                        }
                    } else if res != OpRes::Ok {
                        self.fail("C06/qos0-not-ok", format!("QoS 0 publish {i} returned {res:?}"));
                    } else {
                        // "completes once written": at the moment the future completed, the whole
                        // PUBLISH must already have been accepted by the transport
                        let end = self.tr.map.get(i).cloned().flatten().map(|m| self.w.pkts[m.pkt_index].end);
                        let at_done = self.w.ops[i].done_wire_len.unwrap_or(0);
                        if end.map(|e| e > at_done).unwrap_or(true) {
                            self.fail(
                                "C06/qos0-completed-before-written",
                                format!("QoS 0 publish {i} completed when the transport had accepted {at_done} bytes; its PUBLISH ends at byte {end:?} of the wire"),
                            );
                        }
                    }
                }
                _ => match (&m.expected, m.final_step) {
                    (Some(exp), Some(fs)) => {
                        if step < fs {
                            self.fail("C05/completed-before-ack", format!("operation {i} completed at step {step}, its ack was fed at step {fs}"));
                        }
                        if &res != exp {
                            let sig = format!("C05/wrong-completion/{}", kind_name(m.kind));
                            if !self.failures.iter().any(|f| f.sig == sig) {
                                self.fail(sig, format!("operation {i} completed with {res:?}, its own acknowledgement says {exp:?}"));
                            }
                        }
                    }
                    _ => {
                        let sig = format!("C05/completed-without-own-ack/{}", kind_name(m.kind));
                        if !self.failures.iter().any(|f| f.sig == sig) {
                            self.fail(sig, format!("operation {i} ({:?}) completed with {res:?} although its acknowledgement has not been fed", m.kind));
                        }
                    }
                },
            }
        }
    }

    fn ackable(&self) -> Vec<(usize, AckKind)> {
        let mut v = vec![];
        let mut pings_on_wire: Vec<usize> = vec![];
        for i in 0..self.mops.len() {
            if !self.tr.on_wire(i) {
                continue;
            }
            let m = &self.mops[i];
            match m.kind {
                OpKind::Pub1 => {
                    if m.acks.is_empty() {
                        v.push((i, AckKind::Puback));
                    }
                }
                OpKind::Pub2 => {
                    if m.acks.is_empty() {
                        v.push((i, AckKind::Pubrec));
                    } else if m.acks.len() == 1
                        && m.acks[0].reason < 0x80
                        && self.tr.map[i].as_ref().map(|x| x.pubrel_index.is_some()).unwrap_or(false)
                    {
                        v.push((i, AckKind::Pubcomp));
                    }
                }
                OpKind::Sub(_) => {
                    if m.acks.is_empty() {
                        v.push((i, AckKind::Suback));
                    }
                }
                OpKind::Unsub(_) => {
                    if m.acks.is_empty() {
                        v.push((i, AckKind::Unsuback));
                    }
                }
                OpKind::Ping => {
                    if matches!(self.w.ops[i].spec, OpSpec::Ping) {
                        pings_on_wire.push(i)
                    }
                }
                OpKind::Pub0 | OpKind::Disconnect => {}
            }
        }
        // a conformant broker answers pings in order: only the oldest unanswered one
        pings_on_wire.sort_by_key(|i| self.tr.map[*i].as_ref().unwrap().pkt_index);
        if let Some(i) = pings_on_wire.into_iter().find(|i| self.mops[*i].acks.is_empty()) {
            v.push((i, AckKind::Pingresp));
        }
        v.sort_by_key(|(i, _)| *i);
        v
    }

    fn build_ack(&mut self, sel: u16, deco: &Deco) -> Option<(Vec<u8>, usize)> {
        let list = self.ackable();
        let k = idx(sel, list.len())?;
        let (i, kind) = list[k].clone();
        let table = reason_table(&kind);
        let reason = table[(deco.reason as usize) % table.len()];
        let pid = self.tr.pid(i).unwrap_or(0);
        let phase = self.mops[i].acks.len();
        let rs = if deco.reason_string {
            Some(format!("ack-{i}-{phase}"))
        } else {
            None
        };
        let up: UserProps = (0..(deco.user_props % 3))
            .map(|j| (format!("op{i}"), format!("v{j}")))
            .collect();
        let form = if deco.short {
            rc::Form::short()
        } else {
            rc::Form::canonical()
        };
        // inversion statistics
        if let Some(&last) = self.last_ack_order.last() {
            if i < last {
                self.stats.ack_inversions += 1;
            }
        }
        self.last_ack_order.push(i);
        let n = match self.mops[i].kind {
            OpKind::Sub(n) | OpKind::Unsub(n) => (n % 4) as usize + 1,
            _ => 0,
        };
        let (pkt, expected, is_final): (rc::Packet, Option<OpRes>, bool) = match kind {
            AckKind::Puback => {
                let a = rc::Ack { pid, reason, reason_string: rs.clone(), user_props: up.clone() };
                let exp = if reason >= 0x80 {
                    OpRes::Err(ErrSum::Puback { reason, reason_string: rs, user_props: up })
                } else {
                    OpRes::Ok
                };
                (rc::Packet::Puback(a), Some(exp), true)
            }
            AckKind::Pubrec => {
                let a = rc::Ack { pid, reason, reason_string: rs.clone(), user_props: up.clone() };
                if reason >= 0x80 {
                    (
                        rc::Packet::Pubrec(a),
                        Some(OpRes::Err(ErrSum::Pubrec { reason, reason_string: rs, user_props: up })),
                        true,
                    )
                } else {
                    (rc::Packet::Pubrec(a), None, false)
                }
            }
            AckKind::Pubcomp => {
                let a = rc::Ack { pid, reason, reason_string: rs.clone(), user_props: up.clone() };
                let exp = if reason >= 0x80 {
                    OpRes::Err(ErrSum::Pubcomp { reason, reason_string: rs, user_props: up })
                } else {
                    OpRes::Ok
                };
                (rc::Packet::Pubcomp(a), Some(exp), true)
            }
            AckKind::Suback | AckKind::Unsuback => {
                let reasons: Vec<u8> = (0..n).map(|j| table[(deco.reason as usize + j) % table.len()]).collect();
                let a = rc::AckList { pid, reason_string: rs.clone(), user_props: up.clone(), reasons: reasons.clone() };
                if kind == AckKind::Suback {
                    (
                        rc::Packet::Suback(a),
                        Some(OpRes::SubOk { reasons, reason_string: rs, user_props: up }),
                        true,
                    )
                } else {
                    (
                        rc::Packet::Unsuback(a),
                        Some(OpRes::UnsubOk { reasons, reason_string: rs, user_props: up }),
                        true,
                    )
                }
            }
            AckKind::Pingresp => (rc::Packet::Pingresp, Some(OpRes::Ok), true),
        };
        if reason >= 0x80 && !matches!(kind, AckKind::Suback | AckKind::Unsuback) {
            self.stats.failing_reasons += 1;
        }
        let step = self.w.step;
        let dropped = self.mops[i].dropped_step.is_some();
        {
            let m = &mut self.mops[i];
            m.acks.push(FedAck { kind: kind.clone(), step, reason, ctx_polled_after: false });
            if is_final {
                m.expected = expected;
                m.final_step = Some(step);
            }
            // flow control: which acknowledgements return the slot
            let frees = matches!(kind, AckKind::Puback | AckKind::Pubcomp)
                || (kind == AckKind::Pubrec && reason >= 0x80);
            if frees && m.counted_in_quota && !m.quota_freed {
                m.quota_freed = true;
            }
        }
        if matches!(kind, AckKind::Puback | AckKind::Pubcomp) || (kind == AckKind::Pubrec && reason >= 0x80) {
            let was_exhausted = self.outstanding() + 1 == self.r;
            self.stats.freed_by.insert(match kind {
                AckKind::Puback => "puback",
                AckKind::Pubcomp => "pubcomp",
                _ => "pubrec>=0x80",
            });
            if was_exhausted {
                self.stats.quota_replenished_after_exhaustion += 1;
            }
        }
        if kind == AckKind::Pubcomp && reason < 0x80 {
            self.stats.qos2_completed += 1;
        }
        if dropped {
            self.stats.late_acks_for_dropped += 1;
            let others = (0..self.mops.len()).any(|j| {
                j != i && self.tr.on_wire(j) && self.w.ops[j].pending() && self.mops[j].final_step.is_none()
            });
            if others {
                self.stats.late_ack_while_other_outstanding += 1;
            }
        }
        Some((rc::encode(&pkt, &form), i))
    }

    fn live_sub_ops(&self) -> Vec<usize> {
        (0..self.mops.len())
            .filter(|i| matches!(self.mops[*i].kind, OpKind::Sub(_)) && self.tr.sub_id(*i).is_some())
            .collect()
    }

    fn build_publish(
        &mut self,
        qos: u8,
        dup: bool,
        retain: bool,
        pid_sel: u16,
        target: Target,
        payload_len: u16,
        props: u8,
    ) -> Vec<u8> {
        let subs = self.live_sub_ops();
        let mut ids: Vec<u32> = vec![];
        let mut dest: Vec<usize> = vec![];
        match target {
            Target::None => {}
            Target::Unknown => ids.push(200_000_000),
            Target::Sub(s) => {
                if let Some(k) = idx(s, subs.len()) {
                    dest.push(subs[k]);
                } else {
                    ids.push(200_000_000);
                }
            }
            Target::All => dest.extend(subs.iter().copied()),
            Target::AllReversed => dest.extend(subs.iter().rev().copied()),
            Target::Two(a, b) => {
                if let (Some(x), Some(y)) = (idx(a, subs.len()), idx(b, subs.len())) {
                    dest.push(subs[x]);
                    if y != x {
                        dest.push(subs[y]);
                    } else if subs.len() > 1 {
                        dest.push(subs[(x + 1) % subs.len()]);
                    }
                } else {
                    ids.push(200_000_000);
                    ids.push(200_000_001);
                }
            }
        }
        for d in &dest {
            ids.push(self.tr.sub_id(*d).unwrap());
        }
        if dest.len() > 1 {
            self.stats.msg_multi_id += 1;
        }
        let pid = if qos == 0 {
            None
        } else if pid_sel == 0 {
            self.next_in_pid = self.next_in_pid.wrapping_add(1).max(1000);
            Some(self.next_in_pid)
        } else {
            Some(pid_sel)
        };
        self.msg_counter += 1;
        let n = self.msg_counter;
        let mut payload = format!("m{n}:").into_bytes();
        payload.extend(crate::gen::make_bytes(payload_len as usize, n as u8));
        if props & 32 != 0 {
            payload.clear();
        } else if props & 1 != 0 {
            payload.extend([0xff, 0xfe, 0x80]); // not UTF-8, whatever the indicator says
        }
        let p = rc::Publish {
            dup: dup && qos > 0,
            qos,
            retain,
            topic: format!("in/{n}"),
            pid,
            subscription_ids: ids,
            user_props: vec![("n".into(), format!("{n}"))],
            payload,
            payload_format: if props & 1 != 0 { Some(true) } else if props & 2 != 0 { Some(false) } else { None },
            message_expiry: (props & 4 != 0).then_some(n as u32),
            content_type: (props & 8 != 0).then(|| "text/plain".to_string()),
            response_topic: (props & 16 != 0).then(|| format!("re/{n}")),
            correlation_data: (props & 16 != 0).then(|| vec![n as u8, 0, 0xff]),
            ..Default::default()
        };
        // model: acknowledgement expectation
        let mut redelivery = false;
        if let Some(pid) = pid {
            if qos == 1 {
                self.expected_client_acks.push((4, pid));
            } else {
                self.expected_client_acks.push((5, pid));
                if self.awaiting_rel.contains(&pid) {
                    redelivery = true;
                    self.stats.redeliveries += 1;
                } else {
                    self.awaiting_rel.insert(pid);
                    if self.released.remove(&pid) {
                        self.stats.reuse_after_rel += 1;
                    }
                }
            }
            if dest.is_empty() || dest.iter().all(|d| self.msubs[*d].as_ref().map(|s| s.receiver_gone).unwrap_or(true)) {
                self.stats.inbound_qos_gt0_unroutable += 1;
            }
        }
        // model: delivery expectation
        if !redelivery {
            let view = msg_expected(&p);
            let live = subs
                .iter()
                .filter(|s| self.msubs[**s].as_ref().map(|m| !m.receiver_gone).unwrap_or(false))
                .count();
            self.stats.live_subs_max = self.stats.live_subs_max.max(live);
            for d in &dest {
                let suback_fed = self.mops[*d].final_step.is_some();
                let has_stream = self.w.streams.iter().any(|s| s.op == *d);
                if let Some(ms) = self.msubs[*d].as_mut() {
                    if !ms.receiver_gone {
                        ms.expected.push(view.clone());
                        if !suback_fed {
                            self.stats.msg_before_suback += 1;
                        } else if !has_stream {
                            self.stats.msg_before_stream += 1;
                        }
                        if self.streams_dropped_any {
                            self.stats.msg_after_other_dropped += 1;
                        }
                    }
                }
            }
        }
        rc::encode(&rc::Packet::Publish(p), &rc::Form::canonical())
    }

    fn build_pubrel(&mut self, pid: u16, known: bool) -> Vec<u8> {
        let pid = if known {
            self.awaiting_rel.iter().next().copied().unwrap_or(pid.max(1))
        } else {
            pid.max(1)
        };
        if self.awaiting_rel.remove(&pid) {
            self.released.insert(pid);
        }
        self.expected_client_acks.push((7, pid));
        // every form and both reason codes a PUBREL may carry (0x92 = Packet Identifier not
        // found): whatever it says, it is answered with exactly one PUBCOMP
        let n = self.expected_client_acks.len();
        let ack = match n % 5 {
            0 => rc::Ack { pid, reason: 0x92, ..Default::default() },
            1 => rc::Ack { pid, reason: 0x92, reason_string: Some("gone".into()), ..Default::default() },
            2 => rc::Ack { pid, reason: 0, user_props: vec![("k".into(), "v".into())], ..Default::default() },
            _ => rc::Ack { pid, ..Default::default() },
        };
        rc::encode(&rc::Packet::Pubrel(ack), &if n % 5 == 4 { rc::Form::canonical() } else { rc::Form::short() })
    }

    fn inbound_bytes(&mut self, inb: &Inbound) -> Option<Vec<u8>> {
        match inb {
            Inbound::Ack { sel, deco } => self.build_ack(*sel, deco).map(|x| x.0),
            Inbound::Publish { qos, dup, retain, pid, target, payload_len, props } => {
                Some(self.build_publish(*qos % 3, *dup, *retain, *pid, *target, *payload_len, *props))
            }
            Inbound::Pubrel { pid, known } => Some(self.build_pubrel(*pid, *known)),
            Inbound::BigPublish { kib } => {
                let mut b = self.build_publish(0, false, false, 0, Target::Sub(0), 0, 0);
                // rebuild with the large payload: decode what build_publish produced, extend
                let Ok(rc::Packet::Publish(mut p)) = rc::decode_one(&b, rc::Dir::FromServer) else { return Some(b) };
                p.payload.extend(crate::gen::make_bytes(*kib as usize * 1024, 7));
                // keep the model's expectation in step (payload is part of the view)
                let view = msg_expected(&p);
                for ms in self.msubs.iter_mut().flatten() {
                    if let Some(last) = ms.expected.last_mut() {
                        if last.topic == view.topic {
                            *last = view.clone();
                        }
                    }
                }
                b = rc::encode(&rc::Packet::Publish(p), &rc::Form::canonical());
                Some(b)
            }
        }
    }

    fn feed(&mut self, bytes: Vec<u8>) {
        if self.cfg.read_chunk == 0 {
            self.w.reader.feed(bytes);
        } else {
            if bytes.len() > self.cfg.read_chunk as usize {
                self.stats.split_packets += 1;
            }
            for c in bytes.chunks(self.cfg.read_chunk as usize) {
                self.w.reader.feed(c.to_vec());
            }
        }
    }

    fn poll_ops_done_check(&mut self) {
        self.on_completions();
    }

    /// encoded length of operation i's request
    fn encoded_len(&self, i: usize) -> usize {
        let p = match &self.w.ops[i].spec {
            OpSpec::Publish(p) => p.expected().map(|mut x| {
                if x.qos > 0 {
                    x.pid = Some(1);
                }
                rc::Packet::Publish(x)
            }),
            OpSpec::Subscribe(sp) => sp.expected().map(|mut x| {
                x.pid = 1;
                // widest subscription identifier (4 bytes): see the band in start()
                x.sub_id = Some(268_435_455);
                rc::Packet::Subscribe(x)
            }),
            OpSpec::Unsubscribe(u) => u.expected().map(|mut x| {
                x.pid = 1;
                rc::Packet::Unsubscribe(x)
            }),
            OpSpec::Ping => Some(rc::Packet::Pingreq),
            OpSpec::Disconnect(d) => Some(rc::Packet::Disconnect(d.expected())),
        };
        p.map(|p| rc::encode(&p, &rc::Form::canonical()).len()).unwrap_or(0)
    }

    /// nothing the context has not yet seen: no unread input, no unprocessed
    /// acknowledgement, no request still queued
    fn all_processed(&self) -> bool {
        self.w.reader.unread() == 0
            && !self.w.writer.blocked()
            && self.mops.iter().all(|m| m.acks.iter().all(|a| a.ctx_polled_after))
            // a request that was submitted (future polled at least once) and is neither on the
            // wire nor answered is still queued — also when its future has been dropped since
            && (0..self.mops.len()).all(|i| {
                !(self.w.ops[i].res.is_none()
                    && !self.tr.on_wire(i)
                    && (self.w.ops[i].pending() || self.w.ops[i].first_polled_step.is_some()))
            })
    }

    fn start(&mut self, h: u8, kind: OpKind, settle_now: bool, solo: bool) {
        let live = self.w.live_handles();
        let Some(k) = idx((h as u16) << 8, live.len()) else {
            self.stats.events_skipped += 1;
            return;
        };
        let clean_before = self.all_processed();
        let i = self.w.ops.len();
        let spec = self.op_spec(i, kind);
        self.w.start_op(live[k], spec);
        self.stats.kinds.insert(kind_name(kind));
        let out_before = self.outstanding();
        // the server's Maximum Packet Size is checked before the quota; the encoded length is
        // known up to the width of the subscription identifier (2 bytes of slack)
        let mut too_big = false;
        #[allow(unused_assignments)]
        let mut size_unclear = false;
        if let Some(m) = self.max_packet_size {
            let l = self.encoded_len(i) as u64;
            // the packet identifier is always two bytes; the subscription identifier of a
            // SUBSCRIBE takes 1-4 bytes and its value is the library's choice: inside that band
            // either outcome is accepted
            if matches!(kind, OpKind::Sub(_)) {
                too_big = l > m as u64 + 3; // even a one-byte identifier does not fit
                size_unclear = !too_big && l > m as u64; // fits only if the identifier is short
            } else {
                too_big = l > m as u64;
            }
        }
        let refused = !too_big && matches!(kind, OpKind::Pub1 | OpKind::Pub2) && out_before >= self.r;
        self.mops.push(MOp {
            kind,
            acks: vec![],
            expected: None,
            final_step: None,
            dropped_step: None,
            expect_refused: if too_big { Some("MaximumPacketSizeExceeded") } else if refused { Some("QuotaExceeded") } else { None },
            counted_in_quota: false,
            quota_freed: false,
            completion_checked: false,
            id_checked: false,
            stray_pubrel_answered: false,
            size_unclear,
        });
        self.msubs.push(match kind {
            OpKind::Sub(_) => Some(MSub::default()),
            _ => None,
        });
        if refused {
            self.stats.quota_exhausted += 1;
        }
        if too_big {
            self.stats.refused_for_size += 1;
            let step = self.w.step;
            let m = self.mops.last_mut().unwrap();
            m.expected = Some(OpRes::Err(ErrSum::MaximumPacketSizeExceeded));
            m.final_step = Some(step);
        }
        let exact = (self.cfg.auto_settle || (settle_now && clean_before)) && !size_unclear && !self.early_phase;
        if settle_now && !clean_before && !self.cfg.auto_settle {
            self.stats.inexact_starts += 1;
        }
        if exact {
            // regime Q: the request is handled now, the quota verdict is exact
            let wire_before = self.w.wire_len();
            if solo && !self.cfg.auto_settle {
                // serve just this request: its future, then the context (with write credit)
                self.w.poll_op(i);
                loop {
                    self.w.poll_ctx();
                    if self.w.writer.blocked() {
                        if let Some(g) = self.cfg.write.stall {
                            self.w.writer.grant(g.max(1) as usize);
                            continue;
                        }
                    }
                    if !self.w.ctx_woken() || self.w.total_polls > self.w.poll_budget {
                        break;
                    }
                }
                self.mark_ctx_polled();
                self.w.poll_op(i);
                self.after_activity();
            } else {
                self.settle();
            }
            self.on_completions();
            if self.ctx_dropped || self.w.run_result.is_some() {
                return;
            }
            let res = self.w.ops[i].res.clone();
            let on_wire = self.tr.on_wire(i);
            if too_big {
                if res != Some(OpRes::Err(ErrSum::MaximumPacketSizeExceeded)) || on_wire {
                    self.fail(
                        format!("C12/oversized-not-refused/{}", kind_name(kind)),
                        format!("{} {i} is {} bytes, Maximum Packet Size {:?}: result {res:?}, on wire: {on_wire}", kind_name(kind), self.encoded_len(i), self.max_packet_size),
                    );
                }
            } else if refused {
                if res != Some(OpRes::Err(ErrSum::QuotaExceeded)) {
                    self.fail(
                        "C10/not-refused-at-receive-maximum",
                        format!("publish {i} started with {out_before} outstanding (Receive Maximum {}), result {res:?}, on wire: {on_wire}", self.r),
                    );
                }
                if on_wire {
                    self.fail("C10/refused-but-written", format!("publish {i} refused for quota, yet its PUBLISH is on the wire"));
                }
                if self.cfg.auto_settle && self.w.wire_len() != wire_before {
                    // under quiescent stepping nothing else can have been written meanwhile
                    self.fail("C10/refused-but-written", format!("publish {i} refused for quota, yet {} bytes were written", self.w.wire_len() - wire_before));
                }
            } else {
                if let Some(OpRes::Err(ErrSum::QuotaExceeded)) = res {
                    let freed: Vec<&str> = self.stats.freed_by.iter().copied().collect();
                    self.fail(
                        format!("C10/refused-below-receive-maximum/{}", kind_name(kind)),
                        format!("{} {i} refused with QuotaExceeded although only {out_before} of {} slots are in use (slots freed so far by: {freed:?})", kind_name(kind), self.r),
                    );
                } else if !on_wire && !matches!(res, Some(OpRes::Err(_))) && !self.w.writer.blocked() {
                    self.fail(
                        format!("C06/request-not-written/{}", kind_name(kind)),
                        format!("{} {i} was accepted but its packet is not on the wire at quiescence (result {res:?})", kind_name(kind)),
                    );
                }
                if kind == OpKind::Pub0 && res != Some(OpRes::Ok) && !self.w.writer.blocked() {
                    self.fail("C06/qos0-not-completed-after-write", format!("QoS 0 publish {i}: result {res:?} after its bytes were written"));
                }
            }
        }
    }

    fn apply(&mut self, ev: &Ev) {
        self.w.tick();
        self.stats.events_applied += 1;
        match ev {
            Ev::Start { h, kind, settle, solo } => {
                self.start(*h, *kind, *settle, *solo);
            }
            Ev::CloneHandle => {
                let live = self.w.live_handles();
                if let Some(&h) = live.first() {
                    self.w.clone_handle(h);
                }
            }
            Ev::DropHandle { sel } => {
                let live = self.w.live_handles();
                // never drop the last handle here: that is a terminating cause
                if live.len() > 1 {
                    if let Some(k) = idx(*sel, live.len()) {
                        self.w.drop_handle(live[k]);
                    }
                } else {
                    self.stats.events_skipped += 1;
                }
            }
            Ev::DropOp { sel } => {
                let pend: Vec<usize> = (0..self.w.ops.len()).filter(|i| self.w.ops[*i].pending()).collect();
                if let Some(k) = idx(*sel, pend.len()) {
                    let i = pend[k];
                    self.w.drop_op(i);
                    self.mops[i].dropped_step = Some(self.w.step);
                    self.stats.dropped_ops += 1;
                    if let Some(ms) = self.msubs[i].as_mut() {
                        ms.receiver_gone = true;
                    }
                } else {
                    self.stats.events_skipped += 1;
                }
            }
            Ev::MakeStream { sel } => {
                let cands: Vec<usize> = (0..self.w.ops.len()).filter(|i| self.w.ops[*i].sub_rsp.is_some()).collect();
                if let Some(k) = idx(*sel, cands.len()) {
                    self.w.make_stream(cands[k]);
                } else {
                    self.stats.events_skipped += 1;
                }
            }
            Ev::DropStream { sel } => {
                let cands: Vec<usize> = (0..self.w.streams.len()).filter(|s| self.w.streams[*s].stream.is_some()).collect();
                if let Some(k) = idx(*sel, cands.len()) {
                    let s = cands[k];
                    // what it has not yielded yet is lost with it
                    let op = self.w.streams[s].op;
                    self.w.drop_stream(s);
                    if let Some(ms) = self.msubs[op].as_mut() {
                        ms.receiver_gone = true;
                    }
                    self.streams_dropped_any = true;
                    self.stats.dropped_streams += 1;
                } else {
                    self.stats.events_skipped += 1;
                }
            }
            Ev::PollStream { sel } => {
                let cands: Vec<usize> = (0..self.w.streams.len()).filter(|s| self.w.streams[*s].stream.is_some() && !self.w.streams[*s].ended).collect();
                if let Some(k) = idx(*sel, cands.len()) {
                    let s = cands[k];
                    if !self.w.stream_woken(s) {
                        self.stats.spurious_polls += 1;
                    }
                    let r = self.w.poll_stream(s);
                    if r == StreamPoll::End && !self.ctx_dropped && self.w.run_result.is_none() {
                        self.fail("C07/stream-ended-while-context-alive", format!("stream {s} returned None while the context is alive"));
                    }
                } else {
                    self.stats.events_skipped += 1;
                }
            }
            Ev::In(inb) => {
                if self.terminated.is_some() || self.ctx_dropped {
                    self.stats.events_skipped += 1;
                } else if let Some(b) = self.inbound_bytes(inb) {
                    self.feed(b);
                } else {
                    self.stats.events_skipped += 1;
                }
            }
            Ev::Burst { items, plan, settle_between } => {
                if self.terminated.is_some() || self.ctx_dropped {
                    self.stats.events_skipped += 1;
                } else {
                    let mut all = vec![];
                    let mut bounds = vec![];
                    for it in items {
                        if let Some(b) = self.inbound_bytes(it) {
                            all.extend(b);
                            bounds.push(all.len());
                        }
                    }
                    let chunks = plan.resolve(all.len(), &bounds).apply(&all, &bounds);
                    // statistics on the composition
                    let mut pos = 0usize;
                    let mut prev_b = 0usize;
                    let mut cut_inside = BTreeSet::new();
                    for c in &chunks {
                        let end = pos + c.len();
                        let inside = bounds.iter().filter(|b| **b > pos && **b < end).count();
                        if inside >= 1 {
                            self.stats.multi_packet_reads += 1;
                        }
                        if !bounds.contains(&end) {
                            cut_inside.insert(bounds.iter().position(|b| *b > end).unwrap_or(0));
                        }
                        pos = end;
                        let _ = prev_b;
                        prev_b = end;
                    }
                    self.stats.split_packets += cut_inside.len();
                    for c in chunks {
                        self.w.reader.feed(c);
                        if *settle_between {
                            self.settle();
                            self.on_completions();
                            self.check_quiescent();
                        }
                    }
                }
            }
            Ev::PollCtx => {
                if !self.w.ctx_woken() {
                    self.stats.spurious_polls += 1;
                }
                self.w.poll_ctx();
                self.mark_ctx_polled();
            }
            Ev::PollOp { sel } => {
                let pend: Vec<usize> = (0..self.w.ops.len()).filter(|i| self.w.ops[*i].pending()).collect();
                if let Some(k) = idx(*sel, pend.len()) {
                    if !self.w.ops[pend[k]].task.woken() {
                        self.stats.spurious_polls += 1;
                    }
                    self.w.poll_op(pend[k]);
                } else {
                    self.stats.events_skipped += 1;
                }
            }
            Ev::Settle => {
                self.settle();
                self.on_completions();
                self.check_quiescent();
                return;
            }
            Ev::AdvanceIdentifiers { n } => {
                if self.terminated.is_some() || self.ctx_dropped || !self.w.ctx_running() {
                    self.stats.events_skipped += 1;
                    return;
                }
                self.settle();
                self.on_completions();
                self.tr.update(&mut self.w);
                let budget = self.w.poll_budget;
                self.w.poll_budget = budget.max(400_000_000);
                if !self.w.advance_identifiers(*n) {
                    self.fail("C05/not-completed/pub1", format!("{n} acknowledged QoS 1 publishes in the middle of the history did not go through (run {:?}, panics {:?})", self.w.run_result, self.w.panics));
                }
                self.tr.skip_existing(&mut self.w);
                self.mark_ctx_polled();
            }
            Ev::ReenterRun => {
                if self.terminated.is_some() || self.ctx_dropped || !self.w.ctx_running() {
                    self.stats.events_skipped += 1;
                    return;
                }
                self.settle();
                self.on_completions();
                if self.w.writer.blocked() || self.w.ctx_woken() || !self.w.ctx_running() || self.w.run_result.is_some() {
                    self.stats.events_skipped += 1;
                    return;
                }
                if self.w.cancel_run() && self.w.start_run() {
                    self.stats.kinds.insert("run-re-entered");
                    self.settle();
                } else {
                    self.fail("HARNESS/re-enter-run", "could not cancel and restart run()");
                }
            }
            Ev::Sweep => {
                let polls = self.w.total_polls;
                self.w.sweep(false);
                self.stats.spurious_polls += self.w.total_polls - polls;
                self.mark_ctx_polled();
            }
            Ev::Terminate(cause) => {
                if self.terminated.is_some() || self.ctx_dropped {
                    self.stats.events_skipped += 1;
                } else {
                    self.terminate(cause.clone());
                }
            }
            Ev::DropCtx => {
                if !self.ctx_dropped {
                    self.drop_ctx();
                }
            }
        }
        self.on_completions();
        self.after_event();
        self.on_completions();
    }

    fn terminate(&mut self, cause: Cause) {
        let outstanding = (0..self.mops.len()).any(|i| self.w.ops[i].pending() && self.tr.on_wire(i));
        self.stats.cause_with_outstanding = outstanding;
        self.stats.cause_with_stream = self.w.streams.iter().any(|s| s.stream.is_some() && !s.ended);
        self.terminated = Some((cause.clone(), self.w.step));
        match cause {
            Cause::UserDisconnect(spec) => {
                let live = self.w.live_handles();
                if let Some(&h) = live.first() {
                    let i = self.w.ops.len();
                    self.w.start_op(h, OpSpec::Disconnect(spec));
                    self.mops.push(MOp {
                        kind: OpKind::Disconnect,
                        acks: vec![],
                        expected: Some(OpRes::Ok),
                        final_step: Some(self.w.step),
                        dropped_step: None,
                        expect_refused: None,
                        counted_in_quota: false,
                        quota_freed: false,
                        completion_checked: false,
            id_checked: false,
            stray_pubrel_answered: false,
                        size_unclear: false,
                    });
                    self.msubs.push(None);
                    let _ = i;
                    self.expected_run = Some(RunExpect::Ok);
                    // a DISCONNECT larger than the server's Maximum Packet Size is refused
                    // locally: nothing is written, so no terminating cause has occurred
                    let spec_len = rc::encode(
                        &rc::Packet::Disconnect(match &self.w.ops[i].spec {
                            OpSpec::Disconnect(d) => d.expected(),
                            _ => unreachable!(),
                        }),
                        &rc::Form::canonical(),
                    )
                    .len();
                    if self.max_packet_size.map(|m| spec_len as u64 > m as u64).unwrap_or(false) {
                        self.mops[i].expected = Some(OpRes::Err(ErrSum::MaximumPacketSizeExceeded));
                        self.expected_run = None;
                        self.terminated = None;
                        self.stats.oversized_disconnect = true;
                    }
                }
            }
            Cause::ServerDisconnect(d, short) => {
                let form = if short { rc::Form::short() } else { rc::Form::canonical() };
                let bytes = rc::encode(&rc::Packet::Disconnect(d.clone()), &form);
                self.expected_run = Some(if d.reason == 0 {
                    RunExpect::Ok
                } else {
                    RunExpect::Disconnected(ErrSum::Disconnected {
                        reason: d.reason,
                        session_expiry: 0,
                        reason_string: d.reason_string.clone(),
                        server_reference: d.server_reference.clone(),
                        user_props: d.user_props.clone(),
                    })
                });
                self.feed(bytes);
            }
            Cause::Eof => {
                self.w.reader.set_eof();
                self.expected_run = Some(RunExpect::SocketClosed);
            }
            Cause::ReadErr => {
                self.w.reader.set_err();
                self.expected_run = Some(RunExpect::SocketClosed);
            }
            Cause::WriteErr | Cause::WriteZero => {
                let at = self.w.wire_len();
                self.w.writer.set_fault(if matches!(cause, Cause::WriteErr) {
                    WriteFault::ErrAt(at)
                } else {
                    WriteFault::ZeroAt(at)
                });
                // only observable once the client writes: provoke a write with a ping
                let live = self.w.live_handles();
                if let Some(&h) = live.first() {
                    self.w.start_op(h, OpSpec::Ping);
                    self.mops.push(MOp {
                        kind: OpKind::Ping,
                        acks: vec![],
                        expected: None,
                        final_step: None,
                        dropped_step: None,
                        expect_refused: None,
                        counted_in_quota: false,
                        quota_freed: false,
                        completion_checked: false,
            id_checked: false,
            stray_pubrel_answered: false,
                        size_unclear: false,
                    });
                    self.msubs.push(None);
                    self.expected_run = Some(RunExpect::SocketClosed);
                }
            }
            Cause::DropAllHandles => {
                for h in self.w.live_handles() {
                    self.w.drop_handle(h);
                }
                // handles held by pending operations keep the channel open: the cause has
                // not happened yet; it happens when the last of them completes or is dropped
                let held = self.w.ops.iter().any(|o| o.pending());
                if held {
                    self.expected_run = None;
                    self.terminated = None;
                    self.handles_dropped_pending = true;
                } else {
                    self.expected_run = Some(RunExpect::HandleClosed);
                }
            }
            Cause::Garbage(bytes) => {
                self.expected_run = Some(RunExpect::AnyErr);
                self.feed(bytes);
            }
        }
        self.wire_len_at_disconnect = None;
    }

    fn drop_ctx(&mut self) {
        // statistics: phases present at the drop
        for i in 0..self.mops.len() {
            if !self.w.ops[i].pending() {
                continue;
            }
            let ph = if self.w.ops[i].first_polled_step.is_none() {
                "created"
            } else if !self.tr.on_wire(i) {
                "queued"
            } else if self.mops[i].kind == OpKind::Pub2 && !self.mops[i].acks.is_empty() {
                "between-qos2-phases"
            } else {
                "awaiting-ack"
            };
            self.stats.phases_at_drop.insert(ph);
        }
        for (op, ms) in self.msubs.iter().enumerate() {
            if let Some(ms) = ms {
                let yielded = self.w.streams.iter().find(|s| s.op == op).map(|s| s.items.len()).unwrap_or(0);
                if !ms.receiver_gone && ms.expected.len() > yielded {
                    self.stats.stream_buffered_at_drop = true;
                }
            }
        }
        self.w.drop_ctx();
        self.ctx_dropped = true;
    }

    /// C14: after the context is gone nothing may stay pending.
    fn check_after_drop(&mut self) {
        // operations started after the drop
        let live = self.w.live_handles();
        let mut late = vec![];
        if let Some(&h) = live.first() {
            for kind in [OpKind::Pub0, OpKind::Pub1, OpKind::Pub2, OpKind::Sub(0), OpKind::Unsub(1), OpKind::Ping, OpKind::Disconnect] {
                let i = self.w.ops.len();
                let spec = self.op_spec(i, kind);
                self.w.start_op(h, spec);
                self.mops.push(MOp {
                    kind,
                    acks: vec![],
                    expected: None,
                    final_step: None,
                    dropped_step: None,
                    expect_refused: None,
                    counted_in_quota: false,
                    quota_freed: false,
                    completion_checked: false,
            id_checked: false,
            stray_pubrel_answered: false,
                    size_unclear: false,
                });
                self.msubs.push(None);
                late.push(i);
                self.w.poll_op(i); // first poll must already be Ready
                if self.w.ops[i].res != Some(OpRes::Err(ErrSum::ContextExited)) {
                    let r = self.w.ops[i].res.clone();
                    self.fail(
                        format!("C14/late-operation-not-refused/{}", kind_name(kind)),
                        format!("operation started after the context was dropped: first poll gave {r:?}, want Err(ContextExited)"),
                    );
                }
            }
        }
        self.w.tick();
        settle(&mut self.w, &WritePlan::default(), false);
        for i in 0..self.mops.len() {
            if late.contains(&i) || self.mops[i].dropped_step.is_some() {
                continue;
            }
            let m = self.mops[i].clone();
            match &self.w.ops[i].res {
                None => {
                    if self.w.ops[i].first_polled_step.is_none() {
                        // never polled: its future has not even been submitted; poll it now
                        self.w.poll_op(i);
                        if self.w.ops[i].res.is_none() {
                            self.fail("C14/operation-hangs-after-context-drop", format!("operation {i} ({:?}) first polled after the drop stays pending", m.kind));
                        }
                        continue;
                    }
                    let sig = format!("C14/operation-hangs-after-context-drop/{}", kind_name(m.kind));
                    if !self.failures.iter().any(|f| f.sig == sig) {
                        self.fail(sig, format!("operation {i} ({:?}) is still pending at quiescence after the context was dropped (not woken)", m.kind));
                    }
                }
                Some(res) => {
                    // completed before the drop by its own ack, or ContextExited
                    let ok = if m.kind == OpKind::Disconnect && *res == OpRes::Ok && !self.tr.on_wire(i) {
                        // "disconnected" although the DISCONNECT never reached the transport
                        false
                    } else if Some(res) == m.expected.as_ref() {
                        true
                    } else {
                        match res {
                            // it was still pending when the context went away: whether it
                            // should have completed earlier is C05's claim, not C14's
                            OpRes::Err(ErrSum::ContextExited) => true,
                            OpRes::Err(ErrSum::QuotaExceeded) => {
                                m.expect_refused.is_some() || !self.cfg.auto_settle
                            }
                            // a SUBSCRIBE inside the subscription-identifier band of the server's
                            // Maximum Packet Size: refusing it is as good as sending it
                            OpRes::Err(ErrSum::MaximumPacketSizeExceeded) => m.size_unclear,
                            OpRes::Ok => m.kind == OpKind::Pub0,
                            _ => false,
                        }
                    };
                    if !ok {
                        let res = res.clone();
                        self.fail(
                            format!("C14/wrong-result-after-context-drop/{}", kind_name(m.kind)),
                            format!("operation {i} ({:?}) ended with {res:?}; want its own acknowledgement's result ({:?}) or ContextExited", m.kind, m.expected),
                        );
                    }
                }
            }
        }
        // streams: buffered messages first, then the end
        let subs: Vec<usize> = (0..self.msubs.len()).filter(|i| self.msubs[*i].is_some()).collect();
        for op in subs {
            if self.w.ops[op].sub_rsp.is_some() {
                self.w.make_stream(op);
            }
            let Some(s) = self.w.streams.iter().position(|s| s.op == op) else { continue };
            if self.w.streams[s].stream.is_none() {
                continue;
            }
            self.w.drain_stream(s);
            if !self.w.streams[s].ended {
                self.fail("C14/stream-hangs-after-context-drop", format!("stream of subscribe {op} is Pending after the context was dropped and its buffer drained"));
            }
        }
    }

    fn finish(&mut self) {
        // closing quiescence
        self.w.tick();
        if !self.ctx_dropped {
            self.settle();
            self.on_completions();
            self.check_quiescent();
            // one more for completions triggered by the last step
            self.check_termination();
        }
        if self.ctx_dropped {
            self.check_after_drop();
        }
        self.check_final();
    }

    fn check_termination(&mut self) {
        let Some((cause, _)) = self.terminated.clone() else { return };
        let Some(exp) = self.expected_run.clone() else { return };
        let got = self.w.run_result.clone();
        let cname = cause_name(&cause);
        let ok = match (&exp, &got) {
            (RunExpect::Ok, Some(RunRes::Ok)) => true,
            (RunExpect::Disconnected(e), Some(RunRes::Err(g))) => e == g,
            (RunExpect::SocketClosed, Some(RunRes::Err(ErrSum::SocketClosed))) => true,
            (RunExpect::HandleClosed, Some(RunRes::Err(ErrSum::HandleClosed))) => true,
            (RunExpect::AnyErr, Some(RunRes::Err(_))) => true,
            _ => false,
        };
        if !ok {
            let kind = if got.is_none() { "run-still-pending" } else { "wrong-outcome" };
            self.fail(
                format!("C13/{kind}/{cname}"),
                format!("after {cause:?}: run() = {got:?}, want {exp:?}"),
            );
        }
        if let Cause::UserDisconnect(spec) = &cause {
            // the DISCONNECT must be on the wire, last
            self.w.sync_wire();
            let last = self.w.pkts.last().and_then(|p| p.decoded.clone().ok());
            let want = rc::Packet::Disconnect(spec.expected());
            if last.as_ref() != Some(&want) {
                self.fail(
                    "C13/user-disconnect/not-last-on-wire",
                    format!("last packet on the wire is {last:?}, want {want:?}"),
                );
            }
        }
    }

    fn check_final(&mut self) {
        // wire must be parseable throughout
        if let Some((k, why)) = self.tr.malformed.first().cloned() {
            self.fail("C01/wire/malformed-packet", format!("client packet #{k}: {why}"));
        }
        if self.w.wire_tail() != 0 && self.terminated.is_none() && !self.ctx_dropped && !self.w.writer.blocked() {
            let t = self.w.wire_tail();
            self.fail("C01/wire/trailing-partial-packet", format!("{t} trailing bytes at quiescence"));
        }
        if let Some((k, what)) = self.tr.unattributed.first().cloned() {
            self.fail("C06/unexpected-packet-on-wire", format!("client packet #{k} is not caused by any request: {what}"));
        }
        // C06: per publish exactly one PUBLISH with DUP=0 and the requested content;
        // PUBREL rules
        for i in 0..self.mops.len() {
            let m = self.mops[i].clone();
            let Some(wi) = self.tr.map.get(i).cloned().flatten() else { continue };
            if let (OpKind::Pub0 | OpKind::Pub1 | OpKind::Pub2, Ok(rc::Packet::Publish(p))) =
                (m.kind, self.w.pkts[wi.pkt_index].decoded.clone())
            {
                let OpSpec::Publish(spec) = self.w.ops[i].spec.clone() else { continue };
                let mut want = spec.expected().unwrap();
                want.pid = p.pid;
                if p != want || (want.qos > 0) != p.pid.is_some() {
                    let what = if p.dup { "dup-set-on-first-transmission" } else { "content" };
                    self.fail(format!("C06/publish-on-wire/{what}"), format!("publish {i}: wire has {p:?}, requested {want:?}"));
                }
            }
            if m.kind == OpKind::Pub2 {
                let rec = m.acks.first();
                match rec {
                    None => {
                        if wi.pubrels > 0 {
                            self.fail("C06/pubrel-before-pubrec", format!("publish {i}: PUBREL on the wire before any PUBREC was fed"));
                        }
                    }
                    Some(a) if a.reason >= 0x80 => {
                        if wi.pubrels > 0 {
                            self.fail("C06/pubrel-after-failing-pubrec", format!("publish {i}: PUBREL sent although PUBREC carried reason 0x{:02x}", a.reason));
                        }
                    }
                    Some(a) => {
                        if wi.pubrels > 1 {
                            self.fail("C06/pubrel-duplicated", format!("publish {i}: {} PUBREL packets", wi.pubrels));
                        }
                        let processed = a.ctx_polled_after;
                        if wi.pubrels == 0 && processed && self.terminated.is_none() && !self.ctx_dropped && !self.w.writer.blocked() {
                            let polled = self.w.ops[i].first_polled_step.is_some() && (m.dropped_step.is_none());
                            if polled && self.cfg.auto_settle {
                                self.fail("C06/pubrel-missing", format!("publish {i}: PUBREC (reason 0x{:02x}) processed, no PUBREL on the wire at quiescence", a.reason));
                            }
                        }
                        if wi.pubrels == 0
                            && processed
                            && m.dropped_step.is_some()
                            && self.terminated.is_none()
                            && !self.ctx_dropped
                            && self.w.run_result.is_none()
                            && !self.w.writer.blocked()
                        {
                            // abandoned exchange: the broker keeps the message in flight until
                            // PUBREL/PUBCOMP, so its slot can never be returned: the caller starves
                            self.fail(
                                "C15/abandoned-qos2-exchange-never-finished",
                                format!("publish {i} was dropped at step {:?} after its PUBLISH was sent; PUBREC (reason 0x{:02x}) was processed, yet no PUBREL is on the wire at quiescence: the flow-control slot is lost for good", m.dropped_step, a.reason),
                            );
                        }
                        if let Some(k) = wi.pubrel_index {
                            // position: must come after the step at which PUBREC was fed
                            let start = self.w.pkts[k].start;
                            let fed_step = a.step;
                            let marks = self.w.writer.0.borrow().marks.clone();
                            let written_at = marks.iter().find(|(_, len)| *len > start).map(|(s, _)| *s).unwrap_or(usize::MAX);
                            if written_at < fed_step {
                                self.fail("C06/pubrel-before-pubrec", format!("publish {i}: PUBREL written at step {written_at}, PUBREC fed at step {fed_step}"));
                            }
                        }
                    }
                }
            }
        }
        // duplicates: two wire packets attributed to one op cannot happen by construction
        // (second one is unattributed) — covered above.

        // C08/C09: acknowledgements for inbound traffic
        let got: Vec<(u8, u16)> = self.tr.client_acks.iter().map(|(t, p, _)| (*t, *p)).collect();
        let complete = self.terminated.is_none() && !self.ctx_dropped && self.w.run_result.is_none() && !self.w.writer.blocked();
        let want = self.expected_client_acks.clone();
        let cmp_len = if complete { want.len().max(got.len()) } else { got.len().min(want.len()) };
        for k in 0..cmp_len {
            let g = got.get(k);
            let x = want.get(k);
            if g != x {
                let what = if got.len() < want.len() {
                    match x.map(|a| a.0) {
                        Some(4) => "missing-puback",
                        Some(5) => "missing-pubrec",
                        _ => "missing-pubcomp",
                    }
                } else if got.len() > want.len() {
                    "extra-acknowledgement"
                } else {
                    match (g, x) {
                        (Some((t, _)), Some((u, _))) if t != u => "wrong-type",
                        _ => "wrong-identifier",
                    }
                };
                self.fail(
                    format!("C08/{what}"),
                    format!("acknowledgements written {got:?}\n   expected (arrival order) {want:?}"),
                );
                break;
            }
        }

        // C07/C09: stream contents
        if !self.ctx_dropped || true {
            let subs: Vec<usize> = (0..self.msubs.len()).filter(|i| self.msubs[*i].is_some()).collect();
            for op in subs {
                let ms = self.msubs[op].clone().unwrap();
                if ms.receiver_gone {
                    continue;
                }
                // obtain the stream if the subscribe completed
                if self.w.ops[op].sub_rsp.is_some() {
                    self.w.make_stream(op);
                }
                let Some(s) = self.w.streams.iter().position(|s| s.op == op) else {
                    continue; // SUBACK never fed: nothing to read from
                };
                self.w.drain_stream(s);
                let items = self.w.streams[s].items.clone();
                if items != ms.expected {
                    let what = if items.len() < ms.expected.len() {
                        "message-lost"
                    } else if items.len() > ms.expected.len() {
                        if self.stats.redeliveries > 0 { "qos2-redelivery-yielded-twice" } else { "extra-message" }
                    } else {
                        "content-or-order"
                    };
                    let tag = if self.stats.redeliveries > 0 && what != "message-lost" { "C09" } else { "C07" };
                    let multi = if self.stats.msg_multi_id > 0 && what == "message-lost" { "/multi-subscription-id" } else { "" };
                    let gi: Vec<String> = items.iter().map(|m| m.topic.clone()).collect();
                    let wi: Vec<String> = ms.expected.iter().map(|m| m.topic.clone()).collect();
                    self.fail(
                        format!("{tag}/stream/{what}{multi}"),
                        format!("stream of subscribe {op} yielded {gi:?}, expected {wi:?}"),
                    );
                }
                if self.w.streams[s].ended && !self.ctx_dropped && self.w.run_result.is_none() {
                    self.fail("C07/stream-ended-while-context-alive", format!("stream of subscribe {op} ended although the context is alive"));
                }
            }
        }
        // pending operations that must not have completed
        if !self.ctx_dropped && self.w.run_result.is_none() {
            for i in 0..self.mops.len() {
                let m = &self.mops[i];
                if m.final_step.is_none() && m.expect_refused.is_none() && m.kind != OpKind::Pub0 {
                    if let Some(r) = self.w.ops[i].res.clone() {
                        if matches!(r, OpRes::Err(ErrSum::QuotaExceeded)) {
                            continue;
                        }
                        let sig = format!("C05/completed-without-own-ack/{}", kind_name(m.kind));
                        if !self.failures.iter().any(|f| f.sig == sig) {
                            self.fail(sig, format!("operation {i} completed with {r:?} although its acknowledgement has not been fed"));
                        }
                    }
                }
            }
        }
    }

    fn projections(&self) -> Projections {
        let mut p = Projections::default();
        for i in 0..self.w.ops.len() {
            let mut pk = vec![];
            if let Some(Some(m)) = self.tr.map.get(i) {
                if let Ok(d) = &self.w.pkts[m.pkt_index].decoded {
                    pk.push(format!("{}:{:?}", d.name(), d.pid()));
                }
                for _ in 0..m.pubrels {
                    pk.push(format!("PUBREL:{:?}", m.pid));
                }
            }
            p.op_packets.push(pk);
            p.op_results.push(self.w.ops[i].res.clone());
        }
        p.client_acks = self.tr.client_acks.iter().map(|(t, pid, _)| (*t, *pid)).collect();
        for s in &self.w.streams {
            p.stream_items.push((s.op, s.items.clone()));
            p.stream_ended.push((s.op, s.ended));
        }
        p.run_result = self.w.run_result.clone();
        p.unattributed = self.tr.unattributed.len();
        p.malformed = self.tr.malformed.len();
        p
    }
}

pub fn kind_name(k: OpKind) -> &'static str {
    match k {
        OpKind::Pub0 => "pub0",
        OpKind::Pub1 => "pub1",
        OpKind::Pub2 => "pub2",
        OpKind::Sub(_) => "sub",
        OpKind::Unsub(_) => "unsub",
        OpKind::Ping => "ping",
        OpKind::Disconnect => "disconnect",
    }
}

pub fn cause_name(c: &Cause) -> &'static str {
    match c {
        Cause::UserDisconnect(_) => "user-disconnect",
        Cause::ServerDisconnect(d, _) => {
            if d.reason == 0 {
                "server-disconnect-reason-0"
            } else {
                "server-disconnect"
            }
        }
        Cause::Eof => "eof",
        Cause::ReadErr => "read-error",
        Cause::WriteErr => "write-error",
        Cause::WriteZero => "write-zero",
        Cause::DropAllHandles => "handles-dropped",
        Cause::Garbage(_) => "undecodable-input",
    }
}

pub fn run(scn: &Scenario, cfg: &SimCfg) -> SimOut {
    run_with_block(scn, cfg, usize::MAX)
}

/// `run`, with the write half accepting nothing more from event index `block_at` on
/// (back-pressure that is never released).
pub fn run_with_block(scn: &Scenario, cfg: &SimCfg, block_at: usize) -> SimOut {
    let mut w = World::new();
    // disciplines that poll every task after every event need (events x tasks) polls
    w.poll_budget = (300_000 + scn.events.len() * scn.events.len() * 8).min(400_000_000);
    let connack = rc::Connack {
        receive_maximum: scn.receive_max,
        maximum_packet_size: scn.max_packet_size,
        ..Default::default()
    };
    let mut sim = Sim {
        w,
        cfg,
        tr: Tracker::new(),
        mops: vec![],
        msubs: vec![],
        failures: vec![],
        stats: Stats::default(),
        r: scn.receive_max.map(|v| v as u32).unwrap_or(65535),
        max_packet_size: scn.max_packet_size,
        next_in_pid: 1000,
        msg_counter: 0,
        awaiting_rel: BTreeSet::new(),
        released: BTreeSet::new(),
        expected_client_acks: vec![],
        pings_fed: 0,
        terminated: None,
        expected_run: None,
        ctx_dropped: false,
        wire_len_at_disconnect: None,
        last_ack_order: vec![],
        streams_dropped_any: false,
        handles_dropped_pending: false,
        early_phase: false,
    };
    // prologue bit 6 with ending 7: the earlier connection broke inside the PUBREC for an inbound
    // QoS 2 PUBLISH with identifier 7, and this connection's CONNACK says Session Present (bit 0 is
    // part of that ending): the exchange is still open, a PUBLISH with identifier 7 is a re-delivery
    if scn.prologue & 64 != 0 && scn.prologue & 7 == 7 {
        sim.awaiting_rel.insert(7);
    }
    // prologue bit 7: the first (up to three) operations of the history are issued, and their
    // futures polled once, BEFORE connect() is called - the crate documentation's own pattern of
    // using the handle while another task is still connecting. run() finds them in the queue.
    let mut first_event = 0;
    if scn.prologue & 128 != 0 && scn.prologue & 64 == 0 && scn.id_offset == 0 {
        sim.early_phase = true;
        let mut started = 0;
        while first_event < scn.events.len() && started < 3 {
            match &scn.events[first_event] {
                Ev::Start { h, kind, .. } => {
                    sim.w.tick();
                    let before = sim.w.ops.len();
                    sim.start(*h, *kind, false, false);
                    if sim.w.ops.len() > before {
                        sim.w.poll_op(before);
                    }
                    started += 1;
                }
                Ev::CloneHandle => {
                    let live = sim.w.live_handles();
                    if let Some(&h) = live.first() {
                        sim.w.clone_handle(h);
                    }
                }
                _ => break,
            }
            first_event += 1;
        }
        sim.early_phase = false;
        if started == 0 {
            // nothing was issued early: the history runs as usual (clones made above stay)
        }
        if started > 0 {
            sim.stats.kinds.insert("issued-before-connect");
        }
    }
    if let Err(e) = connect_and_run_v(&mut sim.w, ConnectSpec::default(), &connack, &WritePlan::default(), scn.prologue & 127) {
        // a panic while the connection is being established (varied prologues: reused Context,
        // AUTH exchange, ...) is the library's, not the harness's
        let sig = match sim.w.panics.first() {
            Some((_, m)) => format!("PANIC/{}", panic_sig(m)),
            None => "HARNESS/prologue".to_string(),
        };
        sim.failures.push(Failure { sig, msg: e });
        return SimOut { failures: sim.failures, stats: Stats::default(), proj: Projections::default() };
    }
    if scn.id_offset > 0 && !sim.w.warm_up_identifiers(scn.id_offset) {
        // a defect in plain publishing: reported by the properties that own it
        sim.failures.push(Failure {
            sig: "C05/not-completed/pub1".into(),
            msg: format!("warm-up of {} acknowledged QoS 1 publishes did not go through: panics {:?}, run {:?}", scn.id_offset, sim.w.panics, sim.w.run_result),
        });
        return SimOut { failures: sim.failures, stats: Stats::default(), proj: Projections::default() };
    }
    cfg.write.install(&sim.w);
    {
        let mut r = sim.w.reader.0.borrow_mut();
        r.cap = cfg.read_cap as usize;
        r.yield_first = cfg.read_yield;
    }
    if scn.prologue & 128 != 0 && scn.prologue & 64 == 0 && scn.id_offset == 0 {
        // only the handshake is skipped: the early requests were written when run() started
        sim.tr.skip_handshake(&mut sim.w);
        sim.mark_ctx_polled();
        sim.after_activity();
        sim.on_completions();
    } else {
        sim.tr.skip_existing(&mut sim.w);
    }
    for (k, ev) in scn.events.iter().enumerate().skip(first_event) {
        if k == block_at {
            sim.w.writer.0.borrow_mut().credit = Some(0);
        }
        sim.apply(ev);
        if sim.w.budget_exhausted {
            break;
        }
    }
    sim.finish();
    let _ = sim.pings_fed;
    let proj = sim.projections();
    SimOut { failures: sim.failures, stats: sim.stats, proj }
}
