//! fuzzdbg <sel> <file>: decode one input of the `hist` fuzz target (property selected by <sel>,
//! as $VERIF_HIST_SEL does for the fuzzer) and run it, printing the verdict and the time taken.
fn main() {
    let a: Vec<String> = std::env::args().collect();
    if a.len() < 3 {
        eprintln!("usage: fuzzdbg <sel> <file>");
        std::process::exit(2);
    }
    let data = std::fs::read(&a[2]).unwrap();
    std::env::set_var("VERIF_HIST_SEL", &a[1]);
    let t = std::time::Instant::now();
    let r = vharness::fuzzing::fuzz_hist(&data);
    println!("{:?} in {:?}", r.map(|(f, _)| f.sig), t.elapsed());
}
