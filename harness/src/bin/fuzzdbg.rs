//! fuzzdbg <sel> <file>: decode one fuzz input of the `hist` target and run it, with timings
use proptest::strategy::{Strategy, ValueTree};
use proptest::test_runner::{Config, RngAlgorithm, TestRng, TestRunner};
use proptest::prelude::RngCore;
use vharness::driver::{Property, Tier};
fn main() {
    let a: Vec<String> = std::env::args().collect();
    if a[1] == "c07x" {
        println!("{:?}", vharness::props::simprops::c07_after_expired_session(2, 0, 2).map(|f| f.sig));
        return;
    }
    let data = std::fs::read(&a[2]).unwrap();
    if a.len() > 3 {
        let n: usize = a[3].parse().unwrap();
        let buf: Vec<u8> = (0..n).map(|i| (i * 37 + 11) as u8).collect();
        let rng = TestRng::from_seed(RngAlgorithm::PassThrough, &buf);
        let mut runner = TestRunner::new_with_rng(Config::default(), rng);
        println!("first draw {:x}", runner.rng().next_u64());
        let s = (0u8..3, 0u8..3, 0u8..3);
        let t = s.new_tree(&mut runner).unwrap().current();
        println!("{t:?}");
        {
            use vharness::sim::*;
            let base = proptest::strategy::Just(Scenario { receive_max: None, max_packet_size: None, id_offset: 0, prologue: 0, events: vec![] }).boxed();
            let t = vharness::props::simprops::crowd(base).new_tree(&mut runner).unwrap().current();
            println!("crowd ok {} events; next draw {:x}", t.events.len(), runner.rng().next_u64());
            let t = vharness::props::simprops::sel().new_tree(&mut runner).unwrap().current();
            println!("sel ok {t}; next draw {:x}", runner.rng().next_u64());
            for k in 0..5 {
                let t = (1usize..60).new_tree(&mut runner).unwrap().current();
                println!("usize range draw {k}: {t}; next draw {:x}", runner.rng().next_u64());
            }
            let t = proptest::collection::vec(proptest::strategy::Just(1u8), 1..60).new_tree(&mut runner).unwrap().current();
            println!("vec of just ok {}; next draw {:x}", t.len(), runner.rng().next_u64());
            let t = proptest::collection::vec(vharness::props::simprops::sel(), 1..60).new_tree(&mut runner).unwrap().current();
            println!("vec ok {}; next draw {:x}", t.len(), runner.rng().next_u64());
            let t = vharness::props::common::prologue_variant().new_tree(&mut runner).unwrap().current();
            println!("prologue ok {t}; next draw {:x}", runner.rng().next_u64());
        }
        let s = vharness::props::simprops::C05::strategy(Tier::Quick);
        println!("strategy built");
        let t = s.new_tree(&mut runner).unwrap().current();
        println!("{} events; next draw {:x}", t.events.len(), runner.rng().next_u64());
        return;
    }
    std::env::set_var("VERIF_HIST_SEL", &a[1]);
    let t = std::time::Instant::now();
    let r = vharness::fuzzing::fuzz_hist(&data);
    println!("{:?} in {:?}", r.map(|(f, _)| f.sig), t.elapsed());
}
