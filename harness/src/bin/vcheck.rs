//! CLI used by /verif/check.
//!   vcheck run <Cxx> <quick|thorough>        orchestrates worker processes, writes evidence
//!   vcheck worker <Cxx> <tier> <seed> <w> <W> <profile> <out.json>
//!   vcheck replay <Cxx> <file>               exit 1 + VIOLATION line if it still fails
//!   vcheck selftest
//!   vcheck sample <Cxx> <n>

use std::collections::{BTreeMap, BTreeSet};
use std::process::{Command, Stdio};
use std::time::Instant;
use vharness::driver::*;
use vharness::props;

/// Root of the verification tree: $VERIF_ROOT, else derived from the executable's
/// location (<root>/harness/target/<profile>/vcheck), else /verif.
fn verif_root() -> String {
    if let Ok(r) = std::env::var("VERIF_ROOT") {
        return r;
    }
    if let Ok(exe) = std::env::current_exe() {
        if let Some(root) = exe.ancestors().nth(4) {
            if root.join("harness").is_dir() {
                return root.to_string_lossy().into_owned();
            }
        }
    }
    "/verif".to_string()
}

macro_rules! dispatch {
    ($id:expr, $f:ident $(, $arg:expr)*) => {
        match $id {
            "C01" => $f::<props::c01::C01>($($arg),*),
            "C02" => $f::<props::c02::C02>($($arg),*),
            "C03" => $f::<props::c03::C03>($($arg),*),
            "C04" => $f::<props::c04::C04>($($arg),*),
            "C11" => $f::<props::misc::C11>($($arg),*),
            "C12" => $f::<props::misc::C12>($($arg),*),
            "C17" => $f::<props::misc::C17>($($arg),*),
            "C05" => $f::<props::simprops::C05>($($arg),*),
            "C06" => $f::<props::simprops::C06>($($arg),*),
            "C07" => $f::<props::simprops::C07>($($arg),*),
            "C08" => $f::<props::simprops::C08>($($arg),*),
            "C09" => $f::<props::simprops::C09>($($arg),*),
            "C10" => $f::<props::simprops::C10>($($arg),*),
            "C13" => $f::<props::simprops::C13>($($arg),*),
            "C14" => $f::<props::simprops::C14>($($arg),*),
            "C15" => $f::<props::simprops::C15>($($arg),*),
            "C16" => $f::<props::simprops::C16>($($arg),*),
            other => {
                eprintln!("unknown property {other}");
                std::process::exit(2)
            }
        }
    };
}

fn profile_name() -> &'static str {
    if cfg!(debug_assertions) {
        "checked"
    } else {
        "release"
    }
}

fn worker_main<P: Property>(args: &[String]) -> i32 {
    let verif = verif_root();
    let tier = Tier::parse(&args[1]).expect("tier");
    let seed: u64 = args[2].parse().expect("seed");
    let worker: usize = args[3].parse().unwrap();
    let workers: usize = args[4].parse().unwrap();
    let profile = args[5].clone();
    let out = &args[6];
    let wa = WorkerArgs {
        tier,
        seed,
        worker,
        workers,
        profile,
        known: load_known(&format!("{verif}/known_findings.json")),
        regress_dir: format!("{verif}/regress/{}", P::ID),
        replay_dir: format!("{verif}/replays/{}", P::ID),
    };
    let rep = run_worker::<P>(&wa);
    std::fs::write(out, serde_json::to_vec(&rep).unwrap()).expect("write worker report");
    0
}

fn meta<P: Property>() -> (Vec<&'static str>, String, Vec<String>) {
    (
        P::quick_profiles().to_vec(),
        P::RULE.to_string(),
        P::assumptions(),
    )
}

fn replay_main<P: Property>(path: &str) -> i32 {
    let txt = std::fs::read_to_string(path).unwrap_or_else(|e| {
        eprintln!("cannot read {path}: {e}");
        std::process::exit(2)
    });
    let rf: ReplayFile = serde_json::from_str(&txt).unwrap_or_else(|e| {
        eprintln!("cannot parse {path}: {e}");
        std::process::exit(2)
    });
    match replay::<P>(&rf) {
        Some(f) => {
            println!("[{}] still fails: {} — {}", profile_name(), f.sig, f.msg);
            println!("VIOLATION property={} replay={}", P::ID, path);
            1
        }
        None => {
            println!("[{}] replay passes", profile_name());
            0
        }
    }
}

fn sample_main<P: Property>(n: usize) -> i32 {
    for c in sample_cases::<P>(Tier::Quick, 1, n) {
        println!("{}", serde_json::to_string(&c).unwrap());
        let (out, _) = on_fresh_thread(move || P::run(&c));
        println!("  -> fail={:?} nontrivial={} classes={:?}", out.fail, out.nontrivial, out.classes);
    }
    0
}


// ------------------------------------------------------------------------------------
// coverage-guided campaigns (thorough tier) and replay of their crash files

/// fuzz target serving a property, and (for the shared `hist` target) the selector value
fn fuzz_target_of(id: &str) -> Option<(&'static str, Option<u8>)> {
    Some(match id {
        "C01" => ("tx_struct", None),
        "C02" => ("rx_struct", None),
        "C03" => ("chunking", None),
        "C04" => ("rx_raw", None),
        "C06" => ("hist", Some(0)),
        "C07" => ("hist", Some(1)),
        "C08" => ("hist", Some(2)),
        "C09" => ("hist", Some(3)),
        "C10" => ("hist", Some(4)),
        "C13" => ("hist", Some(5)),
        "C15" => ("hist", Some(6)),
        "C05" => ("hist", Some(7)),
        "C12" => ("hist", Some(8)),
        "C14" => ("hist", Some(9)),
        "C16" => ("hist", Some(10)),
        "C17" => ("hist", Some(11)),
        "C11" => ("hist", Some(12)),
        _ => return None,
    })
}

fn run_fuzz_input(target: &str, data: &[u8]) -> Option<(Failure, String)> {
    use vharness::fuzzing::*;
    match target {
        "rx_raw" => fuzz_rx_raw(data),
        "tx_struct" => fuzz_struct::<props::c01::C01>(data),
        "rx_struct" => fuzz_struct::<props::c02::C02>(data),
        "chunking" => fuzz_struct::<props::c03::C03>(data),
        "hist" => fuzz_hist(data),
        _ => None,
    }
}

fn replay_bin_main(id: &str, path: &str) -> i32 {
    let data = std::fs::read(path).unwrap_or_else(|e| {
        eprintln!("cannot read {path}: {e}");
        std::process::exit(2)
    });
    let name = std::path::Path::new(path).file_name().and_then(|s| s.to_str()).unwrap_or("");
    let target = name.strip_prefix("fuzz-").and_then(|r| r.split('-').next()).map(|s| s.to_string())
        .or_else(|| fuzz_target_of(id).map(|t| t.0.to_string()))
        .unwrap_or_default();
    if let Some((_, Some(sel))) = fuzz_target_of(id) {
        std::env::set_var("VERIF_HIST_SEL", sel.to_string());
    }
    let d2 = data.clone();
    let t2 = target.clone();
    let (r, _) = on_fresh_thread(move || run_fuzz_input(&t2, &d2));
    match r {
        Some((f, case)) => {
            println!("[{}] fuzz input ({target}) still fails: {} — {}\n   case: {}", profile_name(), f.sig, f.msg, &case[..case.len().min(600)]);
            println!("VIOLATION property={id} replay={path}");
            1
        }
        None => {
            println!("[{}] fuzz input ({target}) passes", profile_name());
            0
        }
    }
}

struct FuzzStats {
    target: String,
    jobs: usize,
    seconds: u64,
    execs: u64,
    crashes: Vec<String>,
    corpus_files: usize,
    features: u64,
}

/// Builds the target and runs `jobs` libFuzzer processes for `seconds` each (half of them
/// from the committed seeds, half from an empty corpus). Crash files are copied to
/// <root>/replays/<id>/fuzz-<target>-<n>.bin. Err = infrastructure problem.
fn fuzz_campaign(verif: &str, id: &str, seed: u64, seconds: u64, jobs: usize) -> Result<Option<FuzzStats>, String> {
    let Some((target, sel)) = fuzz_target_of(id) else { return Ok(None) };
    let fuzz_dir = format!("{verif}/fuzz");
    let st = Command::new("cargo")
        .args(["+nightly", "fuzz", "build", "--fuzz-dir", &fuzz_dir, target])
        .env("CARGO_NET_OFFLINE", "true")
        .current_dir(&fuzz_dir)
        .stdout(Stdio::null())
        .stderr(Stdio::piped())
        .output()
        .map_err(|e| format!("cannot run cargo fuzz: {e}"))?;
    if !st.status.success() {
        let err = String::from_utf8_lossy(&st.stderr);
        let tail: Vec<&str> = err.lines().rev().take(15).collect();
        return Err(format!("cargo +nightly fuzz build failed:\n{}", tail.into_iter().rev().collect::<Vec<_>>().join("\n")));
    }
    let bin = format!("{fuzz_dir}/target/x86_64-unknown-linux-gnu/release/{target}");
    if !std::path::Path::new(&bin).exists() {
        return Err(format!("fuzz binary {bin} missing"));
    }
    let work = format!("{verif}/work/fuzz-{id}");
    let _ = std::fs::remove_dir_all(&work);
    std::fs::create_dir_all(&work).map_err(|e| e.to_string())?;
    let seeds = format!("{fuzz_dir}/seeds/{target}");
    let mut children = vec![];
    for j in 0..jobs {
        let corpus = format!("{work}/corpus-{j}");
        std::fs::create_dir_all(&corpus).unwrap();
        let mut cmd = Command::new(&bin);
        cmd.arg(&corpus);
        if j % 2 == 0 && std::path::Path::new(&seeds).is_dir() {
            cmd.arg(&seeds);
        }
        cmd.args([
            &format!("-max_total_time={seconds}"),
            &format!("-seed={}", seed.wrapping_mul(1000).wrapping_add(j as u64 + 1)),
            "-len_control=0",
            "-max_len=4096",
            "-print_final_stats=1",
            "-timeout=30",
            "-rss_limit_mb=3000",
            &format!("-artifact_prefix={work}/art-{j}-"),
        ]);
        if let Some(s) = sel {
            cmd.env("VERIF_HIST_SEL", s.to_string());
        }
        cmd.stdout(Stdio::null()).stderr(Stdio::piped());
        children.push((j, cmd.spawn().map_err(|e| format!("cannot start {bin}: {e}"))?));
    }
    let mut stats = FuzzStats { target: target.to_string(), jobs, seconds, execs: 0, crashes: vec![], corpus_files: 0, features: 0 };
    for (j, c) in children {
        let out = c.wait_with_output().map_err(|e| e.to_string())?;
        let err = String::from_utf8_lossy(&out.stderr);
        for l in err.lines() {
            if let Some(v) = l.strip_prefix("stat::number_of_executed_units:") {
                stats.execs += v.trim().parse::<u64>().unwrap_or(0);
            }
        }
        // last "ft:" figure of the log
        if let Some(ft) = err.lines().rev().find_map(|l| l.split("ft: ").nth(1).and_then(|r| r.split_whitespace().next()).and_then(|x| x.parse::<u64>().ok())) {
            stats.features = stats.features.max(ft);
        }
        stats.corpus_files += std::fs::read_dir(format!("{work}/corpus-{j}")).map(|d| d.count()).unwrap_or(0);
        if !out.status.success() {
            // a crash, a timeout, or an out-of-memory: only VERIF-VIOLATION panics count
            let ours = err.contains("VERIF-VIOLATION");
            let arts: Vec<_> = std::fs::read_dir(&work)
                .map(|d| d.filter_map(|e| e.ok()).map(|e| e.path()).filter(|p| p.file_name().and_then(|n| n.to_str()).map(|n| n.starts_with(&format!("art-{j}-"))).unwrap_or(false)).collect())
                .unwrap_or_default();
            if ours || err.contains("panicked at") {
                for a in arts {
                    let n = stats.crashes.len();
                    let dir = format!("{verif}/replays/{id}");
                    let _ = std::fs::create_dir_all(&dir);
                    let dst = format!("{dir}/fuzz-{target}-{seed}-{j}-{n}.bin");
                    let _ = std::fs::copy(&a, &dst);
                    stats.crashes.push(dst);
                }
                if let Some(l) = err.lines().find(|l| l.contains("VERIF-VIOLATION") || l.contains("panicked at")) {
                    let mut l = l.to_string();
                    l.truncate(700);
                    println!("--- fuzz job {j}: {l}");
                }
            } else {
                eprintln!("fuzz job {j} ended with {} without a violation (timeout / OOM / signal): inconclusive", out.status);
            }
        }
    }
    let _ = std::fs::remove_dir_all(&work);
    Ok(Some(stats))
}

fn run_main(id: &str, tier: Tier) -> i32 {
    let verif = verif_root();
    let t0 = Instant::now();
    let seed: u64 = std::env::var("VERIF_SEED")
        .ok()
        .and_then(|s| s.parse().ok())
        .unwrap_or(1);
    let total_workers: usize = std::env::var("VERIF_WORKERS")
        .ok()
        .and_then(|s| s.parse().ok())
        .unwrap_or(16);
    if let Err(e) = vharness::refcodec::self_test() {
        eprintln!("harness self-test failed (reference codec): {e}");
        return 2;
    }
    let (quick_profiles, rule, assumptions) = dispatch!(id, meta);
    let profiles: Vec<&str> = match tier {
        Tier::Quick => quick_profiles,
        Tier::Thorough => vec!["checked", "release"],
    };
    let per = (total_workers / profiles.len()).max(1);
    let work = format!("{verif}/work/{id}");
    let _ = std::fs::remove_dir_all(&work);
    std::fs::create_dir_all(&work).unwrap();
    let mut children: Vec<(std::process::Child, String, String, usize)> = vec![];
    for p in &profiles {
        let bin = format!("{verif}/harness/target/{p}/vcheck");
        for w in 0..per {
            let out = format!("{work}/{p}-{w}.json");
            let child = Command::new(&bin)
                .args([
                    "worker",
                    id,
                    tier.name(),
                    &seed.to_string(),
                    &w.to_string(),
                    &per.to_string(),
                    p,
                    &out,
                ])
                .stdout(Stdio::inherit())
                .stderr(Stdio::inherit())
                .spawn()
                .unwrap_or_else(|e| {
                    eprintln!("cannot start {bin}: {e}");
                    std::process::exit(2)
                });
            children.push((child, out, p.to_string(), w));
        }
    }
    let mut reports: Vec<WorkerReport> = vec![];
    let mut infra_fail = false;
    // watchdog: a worker stuck inside a single poll of a library future (an infinite loop that
    // never yields) cannot be told from slowness; after the deadline everything is killed and the
    // check is inconclusive (exit 2) — never a violation
    let deadline_s: u64 = std::env::var("VERIF_WATCHDOG_SECS").ok().and_then(|s| s.parse().ok()).unwrap_or(match tier {
        Tier::Quick => 900,
        Tier::Thorough => 5400,
    });
    loop {
        let mut running = 0;
        let mut stuck = false;
        for (c, _, _, _) in children.iter_mut() {
            match c.try_wait() {
                Ok(None) => running += 1,
                Ok(Some(st)) if st.code() == Some(3) => stuck = true,
                _ => {}
            }
        }
        if stuck {
            eprintln!("a worker gave up on a case that did not finish (see INCONCLUSIVE line): remaining workers killed; inconclusive");
            for (c, _, _, _) in children.iter_mut() {
                let _ = c.kill();
            }
            return 2;
        }
        if running == 0 {
            break;
        }
        if t0.elapsed().as_secs() > deadline_s {
            eprintln!("watchdog: {running} worker(s) still running after {deadline_s} s (stuck inside a poll, or far too slow): killed; inconclusive");
            for (c, _, _, _) in children.iter_mut() {
                let _ = c.kill();
            }
            return 2;
        }
        std::thread::sleep(std::time::Duration::from_millis(50));
    }
    for (mut c, out, p, w) in children {
        let st = c.wait().unwrap();
        if !st.success() {
            eprintln!("worker {p}/{w} exited with {st} (infrastructure failure)");
            infra_fail = true;
            continue;
        }
        match std::fs::read(&out).ok().and_then(|b| serde_json::from_slice(&b).ok()) {
            Some(r) => reports.push(r),
            None => {
                eprintln!("worker {p}/{w} left no report");
                infra_fail = true;
            }
        }
    }
    if infra_fail {
        return 2;
    }
    // merge
    let mut evaluations = 0u64;
    let mut generated = 0u64;
    let mut exhaustive = 0u64;
    let mut regress = 0u64;
    let mut nontrivial: BTreeSet<u64> = BTreeSet::new();
    let mut classes: BTreeMap<String, u64> = BTreeMap::new();
    let mut excluded: BTreeMap<String, u64> = BTreeMap::new();
    let mut known_hits: BTreeMap<String, u64> = BTreeMap::new();
    let mut samples = vec![];
    let mut violations: Vec<ReplayFile> = vec![];
    let mut exhaustive_complete = true;
    for r in &reports {
        evaluations += r.evaluations;
        generated += r.generated;
        exhaustive += r.exhaustive;
        regress += r.regress;
        nontrivial.extend(r.nontrivial_hashes.iter().copied());
        for (k, v) in &r.classes {
            *classes.entry(k.clone()).or_insert(0) += v;
        }
        for (k, v) in &r.excluded {
            *excluded.entry(k.clone()).or_insert(0) += v;
        }
        for (k, v) in &r.known_hits {
            *known_hits.entry(k.clone()).or_insert(0) += v;
        }
        if samples.len() < 5 {
            for s in &r.samples {
                if samples.len() < 5 {
                    samples.push(props::common::abbreviate(s));
                }
            }
        }
        violations.extend(r.violations.iter().cloned());
        exhaustive_complete &= r.exhaustive_complete;
    }
    // known findings that still reproduce
    let known = load_known(&format!("{verif}/known_findings.json"));
    for k in known.iter().filter(|k| k.property == id && k.status == "open") {
        if known_hits.get(&k.id).copied().unwrap_or(0) > 0 {
            println!("KNOWN-FINDING: property={} {} [{}]", id, k.what, k.id);
        }
    }
    let mut seen = BTreeSet::new();
    let mut printed = 0;
    for v in &violations {
        if seen.insert(v.sig.clone()) {
            let path = v
                .msg
                .rsplit("[replay=")
                .next()
                .map(|s| s.trim_end_matches(']').to_string())
                .unwrap_or_default();
            let mut m = v.msg.clone();
            if m.len() > 1500 {
                m.truncate(1500);
                m.push('…');
            }
            println!("--- {} ({}): {}", v.sig, v.profile, m);
            println!("VIOLATION property={} replay={}", id, path);
            printed += 1;
        }
    }
    // thorough tier: coverage-guided campaign on the property's fuzz target
    let mut fuzz_json = serde_json::Value::Null;
    let fuzz_secs: u64 = std::env::var("VERIF_FUZZ_SECS").ok().and_then(|s| s.parse().ok()).unwrap_or(match tier {
        Tier::Quick => 0,
        Tier::Thorough => if matches!(id, "C01" | "C02" | "C03" | "C04") { 120 } else { 60 },
    });
    if fuzz_secs > 0 && printed == 0 {
        match fuzz_campaign(&verif, id, seed, fuzz_secs, total_workers) {
            Ok(Some(fs)) => {
                // every crash file is confirmed through the stable in-process path first
                let mut confirmed = 0;
                for c in &fs.crashes {
                    let data = std::fs::read(c).unwrap_or_default();
                    if let Some((_, Some(sel))) = fuzz_target_of(id) {
                        std::env::set_var("VERIF_HIST_SEL", sel.to_string());
                    }
                    let t = fs.target.clone();
                    let (r, _) = on_fresh_thread(move || run_fuzz_input(&t, &data));
                    if let Some((f, _)) = r {
                        if seen.insert(f.sig.clone()) {
                            println!("--- {} (fuzz {}): {}", f.sig, fs.target, &f.msg[..f.msg.len().min(1200)]);
                            println!("VIOLATION property={} replay={}", id, c);
                            printed += 1;
                        }
                        confirmed += 1;
                    } else {
                        eprintln!("fuzz crash file {c} does not reproduce in-process (debug-assertion-only or flaky): not reported");
                    }
                }
                fuzz_json = serde_json::json!({
                    "target": fs.target, "jobs": fs.jobs, "seconds_per_job": fs.seconds,
                    "executions": fs.execs, "corpus_files": fs.corpus_files, "features": fs.features,
                    "crash_files": fs.crashes.len(), "confirmed_violations": confirmed,
                    "note": "wall-clock bounded; hitting the budget means nothing was found in what was explored",
                });
                evaluations += fs.execs;
            }
            Ok(None) => {}
            Err(e) => {
                eprintln!("fuzz campaign could not run (infrastructure): {e}");
                return 2;
            }
        }
    }
    let wall = t0.elapsed().as_secs_f64();
    let ev = serde_json::json!({
        "property_id": id,
        "tier": tier.name(),
        "seed": seed,
        "level": "exploration",
        "coverage": {
            "evaluations": evaluations,
            "distinct_nontrivial": nontrivial.len(),
            "rule": rule,
            "samples": samples,
            "exhaustive": exhaustive > 0 && exhaustive_complete && generated == 0,
            "generated_cases": generated,
            "exhaustive_slice_cases": exhaustive,
            "exhaustive_slice_complete": exhaustive_complete,
            "regress_cases": regress,
            "classes": classes,
            "excluded": excluded,
            "known_finding_hits": known_hits,
            "profiles": profiles,
            "workers_per_profile": per,
            "fuzz": fuzz_json,
        },
        "assumptions": assumptions,
        "wall_s": wall,
        "violations": printed,
    });
    let evdir = if std::env::var("VERIF_NO_EVIDENCE").is_ok() {
        format!("{verif}/work/evidence-scratch")
    } else {
        format!("{verif}/evidence")
    };
    std::fs::create_dir_all(&evdir).unwrap();
    std::fs::write(
        format!("{evdir}/{id}.json"),
        serde_json::to_string_pretty(&ev).unwrap(),
    )
    .unwrap();
    let _ = std::fs::remove_dir_all(&work);
    println!(
        "{id} {}: {} evaluations ({} generated, {} exhaustive, {} regress), {} distinct non-trivial, {} violation signature(s), {:.1}s",
        tier.name(),
        evaluations,
        generated,
        exhaustive,
        regress,
        nontrivial.len(),
        printed,
        wall
    );
    if printed > 0 {
        1
    } else {
        0
    }
}

fn main() {
    let args: Vec<String> = std::env::args().skip(1).collect();
    if args.is_empty() {
        eprintln!("usage: vcheck run|worker|replay|selftest|sample ...");
        std::process::exit(2);
    }
    let code = match args[0].as_str() {
        "selftest" => match vharness::refcodec::self_test() {
            Ok(()) => {
                println!("refcodec self-test ok");
                0
            }
            Err(e) => {
                eprintln!("refcodec self-test FAILED: {e}");
                2
            }
        },
        "run" => {
            let tier = Tier::parse(&args[2]).unwrap_or_else(|| {
                eprintln!("tier must be quick|thorough");
                std::process::exit(2)
            });
            run_main(&args[1], tier)
        }
        "worker" => {
            let id = args[1].clone();
            dispatch!(id.as_str(), worker_main, &args[1..])
        }
        "replay" => {
            let id = args[1].clone();
            dispatch!(id.as_str(), replay_main, &args[2])
        }
        "replay-bin" => replay_bin_main(&args[1], &args[2]),
        "sample" => {
            let id = args[1].clone();
            let n: usize = args.get(2).and_then(|s| s.parse().ok()).unwrap_or(5);
            dispatch!(id.as_str(), sample_main, n)
        }
        other => {
            eprintln!("unknown command {other}");
            2
        }
    };
    std::process::exit(code);
}
