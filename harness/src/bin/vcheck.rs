fn main(){}
